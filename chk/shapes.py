"""Engine B: symbolic shapes with layout (nesting) tracking.

An array value is a tuple of axes; every axis has a symbolic size (sympy
polynomial over named size symbols) and a *nest*: the ordered (outer -> inner)
factorisation of a flattened index, each factor being (label, size).  The
label of a factor is the name of the size symbol it was created from
(`n_ids`, `n_dim`, `n_cov`, ...); an *opaque* factor ('?name') stands for a
flat vector whose layout is not known yet and is *defined* by the first
reshape that splits it.

The interpreter reuses the statement walker of term.Lifter (guards, flags,
inlining) and replaces the expression semantics.  Anything outside the
enumerated idioms evaluates to TOP and is never judged.
"""
import ast

import sympy as sp

from .loader import U
from .term import Lifter, Tup, Opaque, Unsupported

TOP = Opaque('top')


def eq(a, b):
    try:
        return sp.expand(sp.sympify(a) - sp.sympify(b)) == 0
    except Exception:
        return False


def label_of(e):
    e = sp.sympify(e)
    if isinstance(e, sp.Symbol):
        return e.name
    if isinstance(e, sp.Integer):
        return 'c%d' % int(e)
    return str(e)


class Ax:
    __slots__ = ('size', 'nest')

    def __init__(self, size, nest=None):
        self.size = sp.sympify(size)
        if nest is None:
            nest = ((label_of(self.size), self.size),)
        self.nest = tuple(nest)

    def __repr__(self):
        return '>'.join(l for l, s in self.nest) or '1'

    def same(self, other):
        return eq(self.size, other.size) and nest_eq(self.nest, other.nest)


def known_label(l):
    """A factor label that names one size symbol or a constant (not an
    opaque block and not a compound expression of unknown nesting)."""
    import re
    return bool(l) and re.match(r'^[A-Za-z_][A-Za-z_0-9]*$', l) is not None


def nest_clean(nest):
    return tuple((l, s) for l, s in nest if not eq(s, 1))


def nest_eq(a, b):
    a, b = nest_clean(a), nest_clean(b)
    return len(a) == len(b) and all(
        la == lb and eq(sa, sb) for (la, sa), (lb, sb) in zip(a, b))


def nest_refines(want, got, keep=None):
    """`got` equals `want` up to merging adjacent factors of `want` (e.g.
    (a*b, c) for (a, b, c)); the factor labelled `keep` must stay on its
    own.  Compound factors are compared by size."""
    want, got = list(nest_clean(want)), list(nest_clean(got))
    i = 0
    for l, sz in got:
        if i >= len(want):
            return False
        acc = want[i][1]
        labels = [want[i][0]]
        i += 1
        while not eq(acc, sz) and i < len(want):
            acc = acc * want[i][1]
            labels.append(want[i][0])
            i += 1
        if not eq(acc, sz):
            return False
        if keep is not None and keep in labels and len(labels) > 1:
            return False
    return i == len(want)


def nest_str(nest):
    return ' > '.join(l for l, s in nest_clean(nest)) or '1'


class Arr:
    def __init__(self, axes, is_list=False, parts=None):
        self.axes = tuple(axes)
        self.is_list = is_list
        self.parts = parts          # 1-D concatenation of unlike blocks
        self.random = False         # holds independent random draws
        self.const = None           # every element equals this constant

    @property
    def ndim(self):
        return len(self.axes)

    def flat_nest(self):
        out = ()
        for a in self.axes:
            out += a.nest
        return out

    def total(self):
        t = sp.Integer(1)
        for a in self.axes:
            t *= a.size
        return t

    def __repr__(self):
        return 'Arr(%s)' % ', '.join(repr(a) for a in self.axes)


class RandIdx:
    """A uniformly drawn integer index in [0, bound)."""

    def __init__(self, bound):
        self.bound = bound


class Event:
    def __init__(self, kind, node, msg, **kw):
        self.kind, self.node, self.msg, self.kw = kind, node, msg, kw


class ShapeLifter(Lifter):
    """Records `events` (layout definitions, mismatches) while walking."""

    def __init__(self, repo, cls=None, flags=None, rel=None):
        super().__init__(repo, cls, flags, rel)
        self.events = []
        self.defined = {}       # opaque label -> nest that a reshape defined
        self.terminals = []     # (call node, [arg values]) of terminal calls
        self.explore_guards = False
        self.generic_compare = False   # decide `a == b` on symbolic sizes
        self.individual_labels = set()  # axis labels that index individuals
        self.check_random = False       # flag shared random realisations
        self.check_mix = False          # flag full reductions re-broadcast

    # -- helpers ---------------------------------------------------------------
    def note(self, kind, node, msg, **kw):
        self.events.append(Event(kind, node, msg, **kw))

    def as_int(self, v):
        if isinstance(v, (sp.Expr, int)):
            return sp.sympify(v)
        return None

    def split(self, nest, dims, node, what):
        """Split a flat nest into axes of the requested sizes (C order)."""
        nest = list(nest_clean(nest))
        axes = []
        for d in dims:
            if eq(d, 1):
                axes.append(Ax(1, ()))
                continue
            taken = []
            prod = sp.Integer(1)
            while nest and not eq(prod, d):
                l, s = nest[0]
                if l.startswith('?'):
                    # opaque vector: this reshape defines its layout
                    rest = [x for x in dims[len(axes):]]
                    newnest = tuple((label_of(x), sp.sympify(x))
                                    for x in rest if not eq(x, 1))
                    known = self.defined.get(l)
                    if known is not None and not nest_eq(known, newnest):
                        self.note('layout', node,
                                  '%s reads the flat vector as (%s) but '
                                  'another site of the same class lays it '
                                  'out as (%s)' % (what, nest_str(newnest),
                                                   nest_str(known)),
                                  got=newnest, want=known)
                    self.defined.setdefault(l, newnest)
                    for x in rest:
                        axes.append(Ax(x))
                    return axes
                # can this factor be consumed whole?
                q = sp.cancel(sp.sympify(d) / (prod * s))
                if q.is_integer is False or (
                        q.free_symbols and not q.is_polynomial()):
                    self.note('layout', node,
                              '%s takes an axis of size %s where the '
                              'flattened data is laid out as (%s): the next '
                              'factor is %s' % (
                                  what, d, nest_str(nest), l),
                              got=d, want=tuple(nest))
                    return None
                taken.append(nest.pop(0))
                prod *= s
            if not eq(prod, d):
                return None
            axes.append(Ax(d, taken))
        return axes

    # -- expression semantics -----------------------------------------------
    def ev(self, n, env, fn, depth, owner):
        if isinstance(n, ast.Constant) and isinstance(n.value, int) \
                and not isinstance(n.value, bool):
            return sp.Integer(n.value)
        if isinstance(n, ast.Constant) and n.value is Ellipsis:
            return Opaque('ellipsis')
        if isinstance(n, ast.Attribute):
            s = U(n)
            if s in env:
                return env[s]
            if n.attr == 'shape':
                v = self.ev(n.value, env, fn, depth, owner)
                if isinstance(v, Arr):
                    return Tup(a.size for a in v.axes)
                return TOP
            if n.attr == 'T':
                v = self.ev(n.value, env, fn, depth, owner)
                if isinstance(v, Arr):
                    return Arr(tuple(reversed(v.axes)))
                return TOP
            if n.attr == 'ndim':
                v = self.ev(n.value, env, fn, depth, owner)
                if isinstance(v, Arr):
                    return sp.Integer(v.ndim)
                return TOP
            if s == 'np.newaxis':
                return Opaque('newaxis')
            if s in self.flags:
                return self.flags[s]
            return TOP
        if isinstance(n, ast.Name):
            return env.get(n.id, TOP)
        if isinstance(n, ast.Subscript):
            return self.subscript(n, env, fn, depth, owner)
        if isinstance(n, ast.ListComp):
            return self.listcomp(n, env, fn, depth, owner)
        if isinstance(n, (ast.List,)):
            elts = [self.ev(e, env, fn, depth, owner) for e in n.elts]
            return Arr((Ax(len(elts), ((('c%d' % len(elts)),
                                        sp.Integer(len(elts))),)),),
                       is_list=True) if elts else Arr((Ax(0, ()),), True)
        if isinstance(n, ast.Compare):
            return Opaque('bool')
        if isinstance(n, ast.BoolOp):
            return Opaque('bool')
        if isinstance(n, ast.UnaryOp):
            v = self.ev(n.operand, env, fn, depth, owner)
            if isinstance(v, Arr):
                return v
            if isinstance(v, sp.Expr) and isinstance(n.op, ast.USub):
                return -v
            return v if isinstance(n.op, ast.UAdd) else TOP
        try:
            return super().ev(n, env, fn, depth, owner)
        except Unsupported:
            return TOP

    def listcomp(self, n, env, fn, depth, owner):
        nest = ()
        for g in n.generators:
            it = g.iter
            ax = None
            # filters: only membership tests on a statically empty
            # collection are decided (`if k not in special` with no special
            # entries keeps everything); any other filter is unknown
            consts = {}
            if isinstance(it, ast.Call) and U(it.func) == 'zip' and \
                    it.args and isinstance(g.target, ast.Tuple) and len(
                        g.target.elts) == len(it.args):
                # elements of an all-constant array are that constant
                for tg, a_ in zip(g.target.elts, it.args):
                    v_ = self.ev(a_, env, fn, depth, owner)
                    if isinstance(tg, ast.Name) and isinstance(v_, Arr) \
                            and v_.const is not None:
                        consts[tg.id] = bool(v_.const)
            for cond in g.ifs:
                ok = False
                if isinstance(cond, ast.Compare) and len(cond.ops) == 1 \
                        and isinstance(cond.ops[0], ast.NotIn):
                    c = self.ev(cond.comparators[0], env, fn, depth, owner)
                    if isinstance(c, Arr) and eq(c.total(), 0):
                        ok = True
                if isinstance(cond, ast.Name) and consts.get(cond.id) is True:
                    ok = True
                if isinstance(cond, ast.UnaryOp) and isinstance(
                        cond.op, ast.Not) and isinstance(
                        cond.operand, ast.Name) and consts.get(
                        cond.operand.id) is False:
                    ok = True
                if not ok:
                    return TOP
            if isinstance(it, ast.Call) and U(it.func) == 'zip' \
                    and len(it.args) >= 2:
                # the sequences are paired by position: they must have the
                # same length and layout, `zip` truncates silently otherwise
                vs_ = [self.ev(a_, env, fn, depth, owner) for a_ in it.args]
                arrs_ = [v_ for v_ in vs_ if isinstance(v_, Arr)
                         and v_.ndim == 1]
                for v_ in arrs_[1:]:
                    if not eq(v_.axes[0].size, arrs_[0].axes[0].size):
                        self.note('layout', n,
                                  '`%s` pairs a sequence of length %s with '
                                  'one of length %s by position: zip stops '
                                  'at the shorter one and pairs entry k of '
                                  'one with entry k of the other although '
                                  'they describe different things' % (
                                      U(it)[:50], arrs_[0].axes[0].size,
                                      v_.axes[0].size))
                        break
            if isinstance(it, ast.Call) and U(it.func) in ('enumerate',
                                                           'zip') \
                    and it.args:
                it = it.args[0]
            if isinstance(it, ast.Call) and U(it.func) == 'range' \
                    and len(it.args) == 1:
                sz = self.as_int(self.ev(it.args[0], env, fn, depth, owner))
                if sz is not None:
                    ax = Ax(sz)
            else:
                v = self.ev(it, env, fn, depth, owner)
                if isinstance(v, Arr) and v.ndim == 1:
                    ax = v.axes[0]
            if ax is None:
                return TOP
            nest += ax.nest
        size = sp.Integer(1)
        for l, s in nest:
            size *= s
        return Arr((Ax(size, nest),), is_list=True)

    def subscript(self, n, env, fn, depth, owner):
        v = self.ev(n.value, env, fn, depth, owner)
        if isinstance(v, (Tup, tuple)) and not isinstance(v, Arr):
            if isinstance(n.slice, ast.Constant) and isinstance(
                    n.slice.value, int) and -len(v) <= n.slice.value < len(v):
                return v[n.slice.value]
            return TOP
        if not isinstance(v, Arr):
            return TOP
        idx = n.slice.elts if isinstance(n.slice, ast.Tuple) else [n.slice]
        # expand Ellipsis
        n_real = sum(1 for e in idx if not (
            U(e) in ('np.newaxis', 'None') or (
                isinstance(e, ast.Constant) and e.value is Ellipsis)))
        out = []
        axes = list(v.axes)
        fancy = []
        pos = 0
        for e in idx:
            if U(e) in ('np.newaxis', 'None'):
                out.append(Ax(1, ()))
                continue
            if isinstance(e, ast.Constant) and e.value is Ellipsis:
                k = len(axes) - n_real
                out += axes[pos:pos + k]
                pos += k
                continue
            if pos >= len(axes):
                return TOP
            if isinstance(e, ast.Slice):
                if e.lower is None and e.upper is None and e.step is None:
                    out.append(axes[pos])
                else:
                    lo = self.as_int(self.ev(e.lower, env, fn, depth, owner)) \
                        if e.lower is not None else sp.Integer(0)
                    hi = self.as_int(self.ev(e.upper, env, fn, depth, owner)) \
                        if e.upper is not None else axes[pos].size
                    if lo is None or hi is None:
                        out.append(Ax(sp.Symbol('_slice%d' % n.lineno,
                                                positive=True),
                                      ((None, None),)))
                    else:
                        sz = sp.expand(hi - lo)
                        nst = axes[pos].nest
                        if eq(sz, axes[pos].size):
                            out.append(axes[pos])
                        elif len(nst) == 1 and nst[0][0] and \
                                nst[0][0].startswith('?'):
                            # a block of a flat vector of unknown layout
                            out.append(Ax(sz, (('%s[%s:%s]' % (
                                nst[0][0], lo, hi), sz),)))
                        else:
                            out.append(Ax(sz))
                pos += 1
                continue
            iv = self.ev(e, env, fn, depth, owner)
            if isinstance(iv, RandIdx):
                if not eq(iv.bound, axes[pos].size):
                    self.note('shape', n,
                              '`%s` draws a random row index below %s from '
                              'an array with %s rows: only part of the rows '
                              'can ever be selected' % (
                                  U(n)[:50], iv.bound, axes[pos].size))
                pos += 1
                continue
            if isinstance(iv, Arr) and iv.ndim == 1:
                fancy.append((len(out), iv.axes[0]))
                out.append(('fancy', iv.axes[0]))
                pos += 1
                continue
            if isinstance(iv, (sp.Expr, int)) or isinstance(e, ast.UnaryOp):
                lab = {l for l, s_ in axes[pos].nest}
                if isinstance(e, ast.Constant) and (
                        lab & self.individual_labels) and not eq(
                        axes[pos].size, 1):
                    self.note('shape', n,
                              '`%s` takes entry %s of the individual axis '
                              '(%s) of a per-individual array: the values of '
                              'that one individual are used for all '
                              'individuals' % (U(n)[:50], U(e),
                                               nest_str(axes[pos].nest)))
                pos += 1          # integer index removes the axis
                continue
            if isinstance(iv, Opaque) and iv.what == 'bool':
                return TOP
            # unknown index (mask / index array of unknown size)
            return TOP
        out += axes[pos:]
        if fancy:
            first = fancy[0][0]
            ax = fancy[0][1]
            for _, a in fancy[1:]:
                if not a.same(ax):
                    self.note('shape', n, 'index arrays of `%s` have '
                              'different lengths (%s vs %s)' % (
                                  U(n)[:50], ax.size, a.size))
            res = []
            placed = False
            for o in out:
                if isinstance(o, tuple) and o[0] == 'fancy':
                    if not placed:
                        res.append(ax)
                        placed = True
                    continue
                res.append(o)
            out = res
        return Arr(out, is_list=v.is_list and len(out) == 1)

    def _assign(self, t, val, env, fn, depth, owner):
        if isinstance(t, ast.Subscript) and isinstance(t.value, ast.Name):
            cur0 = env.get(t.value.id)
            if isinstance(cur0, Arr) and cur0.const is not None:
                # an element store ends "all elements equal"
                new0 = Arr(cur0.axes, cur0.is_list, cur0.parts)
                env[t.value.id] = new0
            tgt = self.subscript(t, env, fn, depth, owner)
            if isinstance(tgt, Arr) and isinstance(val, Arr):
                if val.random and (val.ndim < tgt.ndim or any(
                        eq(q.size, 1) and not eq(p.size, 1) for p, q in zip(
                            tgt.axes[-val.ndim:], val.axes))):
                    self.note('shape', t,
                              'random draws of shape %s are broadcast into '
                              '`%s` of shape %s: the same realisation is '
                              'repeated along the missing axis instead of '
                              'independent draws' % (
                                  tuple(str(a.size) for a in val.axes),
                                  U(t)[:40],
                                  tuple(str(a.size) for a in tgt.axes)))
                self.broadcast(tgt, val, t, 'assignment to `%s`' % U(t)[:40],
                               into=True)
            return
        if isinstance(t, ast.Subscript):
            return
        try:
            super()._assign(t, val, env, fn, depth, owner)
        except Unsupported:
            for x in ast.walk(t):
                if isinstance(x, ast.Name):
                    env[x.id] = TOP

    def broadcast(self, a, b, node, what, into=False):
        """numpy broadcasting of two arrays -> result Arr (or TOP)."""
        x, y = list(a.axes), list(b.axes)
        if into and len(y) > len(x):
            self.note('shape', node, '%s: value has more axes (%d) than the '
                      'target (%d)' % (what, len(y), len(x)))
            return TOP
        while len(x) < len(y):
            x.insert(0, Ax(1, ()))
        while len(y) < len(x):
            y.insert(0, Ax(1, ()))
        out = []
        for p, q in zip(x, y):
            if eq(p.size, 1) and not into:
                out.append(q)
            elif eq(q.size, 1):
                out.append(p)
            elif eq(p.size, q.size):
                if not eq(p.size, 0) and p.nest and q.nest and \
                        not nest_eq(p.nest, q.nest) and \
                        all(known_label(l) for l, s in p.nest + q.nest):
                    self.note('layout', node,
                              '%s combines an axis laid out as (%s) with one '
                              'laid out as (%s)' % (what, nest_str(p.nest),
                                                    nest_str(q.nest)),
                              got=q.nest, want=p.nest)
                out.append(p)
            else:
                if any(l is None for l, s in p.nest + q.nest):
                    return TOP
                self.note('shape', node,
                          '%s: axes of size %s and %s cannot be broadcast '
                          '(shapes %s and %s)' % (
                              what, p.size, q.size,
                              tuple(str(k.size) for k in a.axes),
                              tuple(str(k.size) for k in b.axes)),
                          a=a, b=b)
                return TOP
        res = Arr(out)
        if not into and (a.random or b.random):
            # independent draws must exist along every axis of the result:
            # a random operand that lacks a (non-unit) axis of the result
            # repeats one realisation along it
            res.random = True
            for r_, o_ in ((a, x), (b, y)):
                if not r_.random:
                    continue
                for p_, q_ in zip(o_, out):
                    if eq(p_.size, 1) and not eq(q_.size, 1) and \
                            self.check_random:
                        self.note('shape', node,
                                  '%s: random draws of shape %s are broadcast '
                                  'to shape %s: one realisation is repeated '
                                  'along the axis of size %s instead of '
                                  'independent draws' % (
                                      what,
                                      tuple(str(k.size) for k in r_.axes),
                                      tuple(str(k.size) for k in out),
                                      q_.size))
                        break
        return res

    def _binop(self, op, a, b):
        if isinstance(op, ast.MatMult):
            if isinstance(a, Arr) and isinstance(b, Arr) and a.ndim >= 1 \
                    and b.ndim >= 1:
                ka = a.axes[-1]
                kb = b.axes[0] if b.ndim == 1 else b.axes[-2]
                if not ka.same(kb):
                    self.note('shape', self._cur, 'matrix product contracts '
                              'an axis (%s, size %s) with (%s, size %s)' % (
                                  nest_str(ka.nest), ka.size,
                                  nest_str(kb.nest), kb.size))
                    return TOP
                rest = list(a.axes[:-1])
                if b.ndim >= 2:
                    rest.append(b.axes[-1])
                return Arr(rest)
            return TOP
        if isinstance(a, Arr) and isinstance(b, Arr):
            if a.is_list and b.is_list and isinstance(op, ast.Add):
                return self.concat([a, b])
            return self.broadcast(a, b, self._cur, 'arithmetic')
        if isinstance(a, Arr) and a.is_list and isinstance(op, ast.Mult):
            k = self.as_int(b)
            if k is not None:
                ax = a.axes[0]
                return Arr((Ax(k * ax.size, ((label_of(k), k),) + ax.nest),),
                           is_list=True)
            return TOP
        if isinstance(b, Arr) and b.is_list and isinstance(op, ast.Mult):
            return self._binop(op, b, a)
        if self.check_mix and isinstance(op, (ast.Add, ast.Sub)):
            for arr, sc in ((a, b), (b, a)):
                if isinstance(arr, Arr) and isinstance(sc, sp.Symbol) \
                        and sc.name.startswith('_scalar|'):
                    red = set(sc.name.split('|')[1:])
                    mixed = [l for l, s_ in arr.flat_nest()
                             if l in red and known_label(l)]
                    if mixed:
                        self.note('shape', self._cur,
                                  'a value summed over the axes (%s) is '
                                  'added to every entry of an array laid out '
                                  'as (%s): the contributions of different '
                                  '%s entries are mixed (a reduction over '
                                  'one axis only was meant)' % (
                                      ', '.join(sorted(red)),
                                      nest_str(arr.flat_nest()), mixed[0]))
        if isinstance(a, Arr):
            return a if not isinstance(b, Opaque) or True else TOP
        if isinstance(b, Arr):
            return b
        ia, ib = self.as_int(a), self.as_int(b)
        if ia is not None and ib is not None:
            f = {ast.Add: lambda x, y: x + y, ast.Sub: lambda x, y: x - y,
                 ast.Mult: lambda x, y: x * y,
                 ast.FloorDiv: lambda x, y: sp.cancel(x / y),
                 ast.Div: lambda x, y: sp.cancel(x / y),
                 ast.Pow: lambda x, y: x ** y,
                 ast.Mod: lambda x, y: sp.Mod(x, y)}.get(type(op))
            if f is not None:
                return f(ia, ib)
        return TOP

    def concat(self, arrs):
        """1-D concatenation: k equal blocks (nest X) -> (k > X)."""
        if not all(isinstance(a, Arr) and a.ndim == 1 for a in arrs):
            return TOP
        nz = [a for a in arrs if not eq(a.axes[0].size, 0)]
        if not nz:
            return arrs[0]
        if len(nz) == 1:
            return nz[0]
        arrs = nz
        first = arrs[0].axes[0]
        if all(a.axes[0].same(first) for a in arrs) and len(arrs) > 1:
            k = sp.Integer(len(arrs))
            return Arr((Ax(k * first.size, (('c%d' % len(arrs), k),)
                           + first.nest),), is_list=arrs[0].is_list)
        size = sum(a.axes[0].size for a in arrs)
        nest = (('+'.join(nest_str(a.axes[0].nest) for a in arrs), size),)
        parts = []
        for a in arrs:
            parts += a.parts if a.parts else [a]
        return Arr((Ax(size, nest),), is_list=arrs[0].is_list, parts=parts)

    def _stmt(self, s, env, fn, depth, owner):
        self._cur = s
        if self.explore_guards and isinstance(s, ast.If) \
                and self._is_guard(s):
            try:
                self._block(s.body, dict(env), fn, depth, owner)
            except Unsupported:
                pass
        if isinstance(s, ast.For):
            return self.for_loop(s, env, fn, depth, owner)
        if isinstance(s, ast.Expr) and isinstance(s.value, ast.Call) \
                and isinstance(s.value.func, ast.Attribute) \
                and s.value.func.attr in ('extend', 'append') \
                and isinstance(s.value.func.value, (ast.Name, ast.Attribute)) \
                and len(s.value.args) == 1:
            # list growth as a statement: `acc.extend(x)` is `acc += x`,
            # `acc.append(x)` is `acc += [x]`
            tgt = s.value.func.value
            cur = self.ev(tgt, env, fn, depth, owner)
            if isinstance(cur, Arr) and cur.is_list:
                if s.value.func.attr == 'extend':
                    val = self.ev(s.value.args[0], env, fn, depth, owner)
                    if isinstance(val, Arr):
                        val = Arr(val.axes, is_list=True, parts=val.parts)
                else:
                    val = Arr((Ax(1, (('c1', sp.Integer(1)),)),),
                              is_list=True)
                new = self._binop(ast.Add(), cur, val) if isinstance(
                    val, Arr) else TOP
                self._assign(tgt, new, env, fn, depth, owner)
                return None
        if isinstance(s, ast.AugAssign):
            cur = self.ev(s.target, env, fn, depth, owner)
            val = self.ev(s.value, env, fn, depth, owner)
            if isinstance(s.target, ast.Subscript):
                if isinstance(cur, Arr) and isinstance(val, Arr):
                    self.broadcast(cur, val, s, 'in-place update of `%s`'
                                   % U(s.target)[:40], into=True)
                return None
            new = self._binop(s.op, cur, val)
            if isinstance(cur, Arr) and not cur.is_list and isinstance(
                    val, Arr):
                self.broadcast(cur, val, s, 'in-place update of `%s`'
                               % U(s.target)[:40], into=True)
                new = cur
            self._assign(s.target, new, env, fn, depth, owner)
            return None
        if isinstance(s, ast.If) and not self._is_guard(s) \
                and self.generic_compare:
            t = s.test
            if isinstance(t, ast.Compare) and len(t.ops) == 1 and isinstance(
                    t.ops[0], (ast.Eq, ast.NotEq)):
                a = self.ev(t.left, env, fn, depth, owner)
                b = self.ev(t.comparators[0], env, fn, depth, owner)
                if isinstance(a, sp.Expr) and isinstance(b, sp.Expr):
                    r = eq(a, b)
                    if isinstance(t.ops[0], ast.NotEq):
                        r = not r
                    return self._block(s.body if r else s.orelse, env, fn,
                                       depth, owner)
        if isinstance(s, ast.If) and not self._is_guard(s):
            # unknown tests: rank dispatch is decided from the abstract rank
            t = s.test
            if isinstance(t, ast.Compare) and isinstance(
                    t.left, ast.Attribute) and t.left.attr == 'ndim':
                v = self.ev(t.left, env, fn, depth, owner)
                c = self.ev(t.comparators[0], env, fn, depth, owner)
                if isinstance(v, sp.Integer) and isinstance(c, sp.Integer):
                    r = {ast.Eq: v == c, ast.NotEq: v != c, ast.Lt: v < c,
                         ast.Gt: v > c, ast.LtE: v <= c,
                         ast.GtE: v >= c}[type(t.ops[0])]
                    return self._block(s.body if r else s.orelse, env, fn,
                                       depth, owner)
        try:
            return super()._stmt(s, env, fn, depth, owner)
        except Unsupported as e:
            if isinstance(s, ast.If):
                # undetermined branch: walk both with copies, keep agreement
                e1, e2 = dict(env), dict(env)
                r1 = self._block(s.body, e1, fn, depth, owner)
                r2 = self._block(s.orelse, e2, fn, depth, owner)
                for k in set(e1) | set(e2):
                    a, b = e1.get(k, TOP), e2.get(k, TOP)
                    env[k] = a if _same_val(a, b) else TOP
                if r1 is not None and r2 is not None:
                    return r1
                return None
            if isinstance(s, ast.Assign):
                for t in s.targets:
                    for x in ast.walk(t):
                        if isinstance(x, ast.Name):
                            env[x.id] = TOP
            return None

    def for_loop(self, s, env, fn, depth, owner):
        """`for v in range(n)/list: acc += <list>`  -> acc = (n > inner)."""
        it = s.iter
        ax = None
        if isinstance(it, ast.Call) and U(it.func) == 'range' \
                and len(it.args) == 1:
            sz = self.as_int(self.ev(it.args[0], env, fn, depth, owner))
            if sz is not None:
                ax = Ax(sz)
        elif isinstance(it, ast.Call) and U(it.func) == 'enumerate' \
                and it.args:
            v = self.ev(it.args[0], env, fn, depth, owner)
            if isinstance(v, Arr) and v.ndim >= 1:
                ax = v.axes[0]
        else:
            v = self.ev(it, env, fn, depth, owner)
            if isinstance(v, Arr) and v.ndim >= 1:
                ax = v.axes[0]
        if ax is not None and eq(ax.size, 0):
            return None             # statically empty iterable
        # positional pairing: inside `for i, a in enumerate(A)` a subscript
        # `B[i]` reads the entry of B at the position of a; the two lists
        # must then be laid out alike
        if ax is not None and isinstance(it, ast.Call) and U(
                it.func) == 'enumerate' and isinstance(
                s.target, ast.Tuple) and len(s.target.elts) == 2 \
                and isinstance(s.target.elts[0], ast.Name):
            ivar = s.target.elts[0].id
            seen_ = set()
            for x in ast.walk(ast.Module(body=s.body, type_ignores=[])):
                if isinstance(x, ast.Subscript) and isinstance(
                        x.slice, ast.Name) and x.slice.id == ivar \
                        and U(x.value) not in seen_:
                    seen_.add(U(x.value))
                    b = self.ev(x.value, env, fn, depth, owner)
                    if isinstance(b, Arr) and b.ndim == 1 and not \
                            b.axes[0].same(ax) and all(
                                known_label(l) or '+' in str(l)
                                for l, s_ in b.axes[0].nest + ax.nest):
                        self.note('layout', x,
                                  '`%s` is read at the position of the '
                                  'elements of `%s`, but the two are laid '
                                  'out differently: (%s) vs (%s) — entries '
                                  'are paired with the wrong partner' % (
                                      U(x)[:40], U(it.args[0])[:40],
                                      nest_str(b.axes[0].nest),
                                      nest_str(ax.nest)))
        # loop variables: scalars / elements
        for x in ast.walk(s.target):
            if isinstance(x, ast.Name):
                env[x.id] = TOP
        accs = {}
        for st in s.body:
            ext = None
            if isinstance(st, ast.Expr) and isinstance(
                    st.value, ast.Call) and isinstance(
                    st.value.func, ast.Attribute) and \
                    st.value.func.attr == 'extend' and len(
                        st.value.args) == 1 and isinstance(
                    st.value.func.value, (ast.Name, ast.Attribute)):
                ext = (st.value.func.value, st.value.args[0])
            if ext or (isinstance(st, ast.AugAssign) and isinstance(
                    st.op, ast.Add) and isinstance(
                    st.target, (ast.Name, ast.Attribute))):
                tgt_, val_ = ext if ext else (st.target, st.value)
                cur = env.get(U(tgt_))
                val = self.ev(val_, env, fn, depth, owner)
                if ext and isinstance(val, Arr):
                    val = Arr(val.axes, is_list=True, parts=val.parts)
                if isinstance(cur, Arr) and cur.is_list and isinstance(
                        val, Arr) and val.is_list and ax is not None:
                    blk = Arr((Ax(ax.size * val.axes[0].size,
                                  ax.nest + val.axes[0].nest),),
                              is_list=True)
                    accs[U(tgt_)] = blk if eq(cur.total(), 0) \
                        else self.concat([cur, blk])
                    continue
            if isinstance(st, ast.Expr) and isinstance(
                    st.value, ast.Call) and isinstance(
                    st.value.func, ast.Attribute) and \
                    st.value.func.attr == 'append' and isinstance(
                    st.value.func.value, ast.Name) and ax is not None:
                nm = st.value.func.value.id
                cur = env.get(nm)
                if isinstance(cur, Arr) and cur.is_list and eq(
                        cur.total(), 0):
                    accs[nm] = Arr((ax,), is_list=True)
                    continue
            # anything else in the body: assigned names become TOP
            for x in ast.walk(st):
                if isinstance(x, (ast.Assign, ast.AugAssign)):
                    tg = x.targets if isinstance(x, ast.Assign) \
                        else [x.target]
                    for t in tg:
                        if isinstance(t, ast.Subscript):
                            continue    # element store: the shape stays
                        for y in ast.walk(t):
                            if isinstance(y, ast.Name) and isinstance(
                                    y.ctx, ast.Store) and y.id not in accs:
                                env[y.id] = TOP
        env.update(accs)
        return None

    def _call(self, n, env, fn, depth, owner):
        f = U(n.func)
        ev = lambda e: self.ev(e, env, fn, depth, owner)   # noqa: E731
        if f in ('itertools.repeat',) and len(n.args) == 2:
            k_ = self.as_int(ev(n.args[1]))
            if k_ is not None:
                return Arr([Ax(k_)], is_list=True)
            return TOP
        if f in ('list', 'tuple') and n.args and isinstance(
                n.args[0], ast.Call) and U(n.args[0].func) in (
                'itertools.chain.from_iterable', 'chain.from_iterable') \
                and n.args[0].args and isinstance(
                    n.args[0].args[0], (ast.GeneratorExp, ast.ListComp)):
            comp = n.args[0].args[0]
            outer = self.listcomp(comp, env, fn, depth, owner)
            # one inner list per element of the comprehension
            env2 = dict(env)
            for g in comp.generators:
                for x in ast.walk(g.target):
                    if isinstance(x, ast.Name):
                        env2.setdefault(x.id, TOP)
            try:
                inner = self.ev(comp.elt, env2, fn, depth, owner)
            except Exception:
                inner = TOP
            if isinstance(outer, Arr) and isinstance(inner, Arr) \
                    and inner.ndim == 1:
                nest = outer.axes[0].nest + inner.axes[0].nest
                return Arr((Ax(outer.axes[0].size * inner.axes[0].size,
                               nest),), is_list=True)
            return TOP
        if f in ('np.asarray', 'np.array', 'np.copy', 'np.sqrt', 'np.log',
                 'np.exp', 'np.abs', 'copy.copy', 'copy.deepcopy', 'list',
                 'np.ma.filled', 'np.isnan', 'np.isinf', 'np.isfinite',
                 '_norm_pdf', '_norm_cdf', 'norm.pdf', 'norm.cdf',
                 'np.square', 'np.log1p', 'np.expm1', 'erf', 'math.erf',
                 'scipy.special.erf') \
                and n.args:
            v = ev(n.args[0])
            if isinstance(v, Arr):
                return Arr(v.axes, is_list=(f == 'list'))
            return v if f != 'list' else TOP
        if f in ('np.empty', 'np.zeros', 'np.ones', 'np.full') :
            sh = None
            for k in n.keywords:
                if k.arg == 'shape':
                    sh = ev(k.value)
            if sh is None and n.args:
                sh = ev(n.args[0])
            cst = {'np.zeros': 0, 'np.ones': 1}.get(f)
            if isinstance(sh, (Tup, tuple)):
                dims = [self.as_int(x) for x in sh]
                if all(d is not None for d in dims):
                    a_ = Arr([Ax(d) for d in dims])
                    a_.const = cst
                    return a_
                return TOP
            d = self.as_int(sh)
            if d is not None:
                a_ = Arr([Ax(d)])
                a_.const = cst
                return a_
            return TOP
        if f == 'len' and n.args:
            v = ev(n.args[0])
            if isinstance(v, Arr) and v.ndim >= 1:
                return v.axes[0].size
            return TOP
        if f in ('int', 'float') and n.args:
            return ev(n.args[0])
        if f in ('np.sum', 'np.mean', 'np.var', 'np.max', 'np.min',
                 'np.prod') and n.args:
            v = ev(n.args[0])
            axis = None
            keep = False
            for k in n.keywords:
                if k.arg == 'axis':
                    axis = ev(k.value)
                if k.arg == 'keepdims':
                    keep = True
            if len(n.args) > 1:
                axis = ev(n.args[1])
            if not isinstance(v, Arr):
                return TOP
            if axis is None:
                # a full reduction: remember over which axes it summed
                return sp.Symbol('_scalar|' + '|'.join(
                    str(l) for l, s_ in v.flat_nest() if l))
            if isinstance(axis, sp.Integer):
                a = int(axis)
                axes = list(v.axes)
                if not -len(axes) <= a < len(axes):
                    self.note('shape', n, 'reduction over axis %d of an '
                              'array with %d axes' % (a, len(axes)))
                    return TOP
                if keep:
                    axes[a] = Ax(1, ())
                else:
                    axes.pop(a)
                return Arr(axes)
            return TOP
        if f in ('np.hstack', 'np.concatenate') and n.args:
            v = ev(n.args[0])
            if isinstance(v, (Tup, tuple)):
                parts = []
                for x in v:
                    if isinstance(x, Arr) and x.ndim == 1:
                        parts.append(x)
                    elif isinstance(x, Arr):
                        return TOP
                    else:
                        return TOP
                return self.concat(parts) if parts else TOP
            return TOP
        if f in ('sorted', 'reversed', 'np.sort', 'np.unique', 'np.flip',
                 'np.random.permutation') and n.args:
            # a re-ordered (and, for unique, possibly shortened) sequence:
            # its positions are not the positions of its argument
            v = ev(n.args[0])
            if isinstance(v, Arr) and v.ndim == 1:
                lab = '%s(%s)' % (f, nest_str(v.axes[0].nest))
                return Arr([Ax(v.axes[0].size, ((lab, v.axes[0].size),))],
                           is_list=v.is_list or f in ('sorted',))
            return TOP
        if f in ('np.stack', 'numpy.stack') and n.args and isinstance(
                n.args[0], (ast.Tuple, ast.List)):
            vals = [ev(e) for e in n.args[0].elts]
            axis = sp.Integer(0)
            for k in n.keywords:
                if k.arg == 'axis':
                    axis = ev(k.value)
            if len(n.args) > 1:
                axis = ev(n.args[1])
            arrs = [v for v in vals if isinstance(v, Arr)]
            if arrs and isinstance(axis, sp.Integer) and all(
                    a.ndim == arrs[0].ndim for a in arrs):
                a0 = arrs[0]
                ax = int(axis)
                if ax < 0:
                    ax += a0.ndim + 1
                if 0 <= ax <= a0.ndim:
                    k_ = sp.Integer(len(vals))
                    axes = list(a0.axes)
                    axes.insert(ax, Ax(k_))
                    return Arr(axes)
            return TOP
        if f == 'np.broadcast_to' and n.args:
            sh = ev(n.args[1]) if len(n.args) >= 2 else None
            for k in n.keywords:
                if k.arg == 'shape':
                    sh = ev(k.value)
            src = ev(n.args[0])
            if isinstance(sh, (Tup, tuple)):
                dims = [self.as_int(x) for x in sh]
                if all(d is not None for d in dims):
                    out = Arr([Ax(d) for d in dims])
                    if isinstance(src, Arr):
                        self.broadcast(out, src, n, '`%s`' % U(n)[:60],
                                       into=True)
                    return out
            return TOP
        if f == 'range':
            return TOP
        if f == 'set' and not n.args:
            return Arr((Ax(0, ()),), is_list=True)
        if f in ('np.repeat', 'np.tile') and len(n.args) == 2 \
                and not n.keywords:
            # 1-D repeat: each element k times (src > k); tile: the whole
            # sequence k times (k > src)
            v = ev(n.args[0])
            k = self.as_int(ev(n.args[1]))
            if isinstance(v, Arr) and k is not None and (
                    v.ndim == 1 or f == 'np.repeat'):
                # without `axis` np.repeat works on the flattened array
                rep = ((label_of(k), k),)
                flat = v.flat_nest()
                nest = flat + rep if f == 'np.repeat' else rep + flat
                return Arr((Ax(v.total() * k, nest),), is_list=v.is_list)
            return TOP
        if isinstance(n.func, ast.Attribute) and n.func.attr == 'integers' \
                and (n.args or n.keywords):
            hi = ev(n.args[-1]) if 1 <= len(n.args) <= 2 else (
                ev(n.args[1]) if len(n.args) == 3 else None)
            if len(n.args) == 1 and not any(
                    k.arg == 'high' for k in n.keywords) and any(
                    k.arg == 'low' for k in n.keywords):
                hi = None
            for k in n.keywords:
                if k.arg == 'high':
                    hi = ev(k.value)
            b = self.as_int(hi)
            sz_ = None
            for k in n.keywords:
                if k.arg == 'size':
                    sz_ = self.as_int(ev(k.value))
            if len(n.args) == 3:
                sz_ = self.as_int(ev(n.args[2]))
            if b is not None and sz_ is not None:
                # a vector of random row indices below b
                a_ = Arr([Ax(sz_)])
                a_.randbound = b
                return a_
            if b is not None:
                return RandIdx(b)
            return TOP
        if isinstance(n.func, ast.Attribute) and n.func.attr in (
                'normal', 'lognormal', 'uniform', 'standard_normal'):
            sz = None
            for k in n.keywords:
                if k.arg == 'size':
                    sz = ev(k.value)
            if isinstance(sz, (Tup, tuple)):
                dims = [self.as_int(x) for x in sz]
                if all(d is not None for d in dims):
                    a = Arr([Ax(d) for d in dims])
                    a.random = True
                    return a
            d = self.as_int(sz)
            if d is not None:
                a = Arr([Ax(d)])
                a.random = True
                return a
            return TOP
        if isinstance(n.func, ast.Attribute):
            recv, attr = n.func.value, n.func.attr
            if attr == 'reshape':
                v = ev(recv)
                dims = []
                args = n.args
                if len(args) == 1 and isinstance(args[0], ast.Tuple):
                    args = args[0].elts
                vals_ = [ev(a) for a in args]
                if len(vals_) == 1 and isinstance(vals_[0], (Tup, tuple)) \
                        and not isinstance(vals_[0], Arr):
                    vals_ = list(vals_[0])      # a name bound to a shape
                for v_ in vals_:
                    d = self.as_int(v_)
                    if d is None:
                        return TOP
                    dims.append(d)
                if not isinstance(v, Arr):
                    return TOP
                if not eq(v.total(), sp.Mul(*dims)) and all(
                        l is not None for l, s in v.flat_nest()):
                    self.note('shape', n, '`%s` reshapes %s elements into '
                              '%s' % (U(n)[:50], v.total(), tuple(dims)))
                    return TOP
                axes = self.split(v.flat_nest(), dims, n,
                                  '`%s`' % U(n)[:60])
                return Arr(axes) if axes else Arr([Ax(d) for d in dims])
            if attr in ('flatten', 'ravel'):
                v = ev(recv)
                if isinstance(v, Arr):
                    return Arr((Ax(v.total(), v.flat_nest()),))
                return TOP
            if attr in ('copy', 'astype', 'tolist'):
                return ev(recv)
            if attr == 'sum':
                v = ev(recv)
                return sp.Symbol('_scalar') if isinstance(v, Arr) else TOP
            if isinstance(recv, ast.Name) and recv.id == 'self' and owner:
                if self.terminal and attr == self.terminal:
                    vals = [ev(a) for a in n.args]
                    self.terminals.append((n, vals))
                    return Tup([Opaque('terminal')] + vals)
                k, d = self.repo.resolve(self.cls or owner, attr)
                if d is not None and depth < 3:
                    try:
                        return self._inline(d, n, env, fn, depth, k)
                    except Unsupported:
                        return TOP
                return TOP
        # unknown callee: its arguments are still evaluated (index
        # expressions inside them can carry layout events)
        for a in list(n.args) + [k.value for k in n.keywords]:
            try:
                ev(a)
            except Unsupported:
                pass
        return TOP


def _same_val(a, b):
    if isinstance(a, Arr) and isinstance(b, Arr):
        return a.ndim == b.ndim and all(
            x.same(y) for x, y in zip(a.axes, b.axes))
    return a is b
