"""Engine F: lift closed-form numeric kernels from the AST into terms.

Arrays are per-element atoms; np.sum / len become the linear functional S(.);
np.empty + slot stores become Slots; module helpers and self-methods are
inlined (depth bound 4).  sympy is used as a rewriting engine only (expand /
cancel / diff / expand_log); there are no path conditions and no solver.

Support guards (`if <test on np.any / <= 0 / isnan ...>: return ...`) are
recorded and the walk continues on the guard-false path.  Boolean flags
(`self._centered`, `x is None`) are supplied by the caller, who enumerates
them.
"""
import ast

import sympy as sp

from .loader import U, AnalysisError, expand_pred
from .pathwalk import beval

S = sp.Function('S')               # sum over the element axis (linear)
EPS_PREFIX = 'eps'


class Unsupported(AnalysisError):
    pass


class Slots:
    """An array addressed by a small constant index on one axis."""

    def __init__(self, slots=None, default=None):
        self.slots = dict(slots or {})
        self.default = default

    def get(self, k):
        if k in self.slots:
            return self.slots[k]
        if self.default is not None:
            return self.default
        raise Unsupported('slot %r of array read before it is written' % (k,))

    def map(self, f):
        return Slots({k: f(v) for k, v in self.slots.items()},
                     None if self.default is None else f(self.default))

    def __repr__(self):
        return 'Slots(%r)' % (self.slots,)


class Tup(tuple):
    pass


class Opaque:
    """A value the algebra does not look into (shapes, rngs, ...)."""

    def __init__(self, what):
        self.what = what

    def __repr__(self):
        return 'Opaque(%s)' % self.what


class Guard:
    def __init__(self, test, ret, fn):
        self.test, self.ret, self.fn = test, ret, fn


GUARD_MARKS = ('np.any', 'np.isnan', 'np.isinf', 'np.ma.is_masked',
               'np.all', 'np.isfinite')

def _log(x):
    # log(exp(u)) = u for the real quantities lifted here
    if getattr(x, 'func', None) == sp.exp:
        return x.args[0]
    return sp.log(x)


UNARY = {
    'np.log': _log, 'np.exp': sp.exp, 'np.sqrt': sp.sqrt,
    'math.log': _log, 'math.exp': sp.exp, 'math.sqrt': sp.sqrt,
    'np.abs': sp.Abs, 'erf': sp.erf, 'math.erf': sp.erf,
    'scipy.special.erf': sp.erf, 'np.square': lambda x: x**2,
}
IDENTITY_FUNCS = {'np.asarray', 'np.array', 'np.copy', 'copy.copy',
                  'copy.deepcopy', 'np.atleast_1d', 'np.atleast_2d',
                  'float', 'np.ma.filled', 'pints.vector', 'np.squeeze',
                  'np.expand_dims', 'np.broadcast_to', 'np.ascontiguousarray',
                  'np.reshape', 'np.ravel'}
IDENTITY_METHODS = {'reshape', 'flatten', 'copy', 'ravel', 'astype',
                    'squeeze', 'transpose', 'filled'}


def _floordiv(x, y):
    # counts that are divided into equal blocks (`n_sim // n_kernels`, a
    # reshape follows and raises otherwise) divide exactly; a *sum over the
    # elements* (len() of the data inside a formula) does not
    q = x / y
    try:
        if any(getattr(a, 'func', None) is not None
               and getattr(a.func, '__name__', '') == 'S'
               for a in sp.sympify(q).atoms(sp.Function)):
            return sp.floor(q)
    except Exception:
        pass
    return q


def norm_pdf(x):
    return sp.exp(-x**2 / 2) / sp.sqrt(2 * sp.pi)


def norm_cdf(x):
    return (1 + sp.erf(x / sp.sqrt(2))) / 2


class Lifter:
    def __init__(self, repo, cls=None, flags=None, rel=None):
        self.repo = repo
        self.cls = cls
        self.flags = dict(flags or {})
        self.rel = rel or (repo.cls(cls).relpath if cls else None)
        self.guards = []
        self.neps = 0
        self.draws = []          # (kind, args) per stochastic draw
        self.terminal = None     # name of a self-method treated as terminal
        self.fulls = []          # (shape, fill) of np.full calls
        self.reshapes = []       # (call node, Tup of dims or None)

    # -- running a function --------------------------------------------------
    def run(self, fn, env, depth=0, owner=None):
        """-> return value of fn on the guard-false path."""
        env = dict(env)
        res = self._block(fn.body, env, fn, depth, owner or self.cls)
        if res is None:
            return None
        return res[1]

    def _block(self, stmts, env, fn, depth, owner):
        for s in stmts:
            r = self._stmt(s, env, fn, depth, owner)
            if r is not None:
                return r
        return None

    def _is_guard(self, s, need_exit=True):
        if not isinstance(s, ast.If):
            return False
        last = s.body[-1] if s.body else None
        if need_exit and not isinstance(last, (ast.Return, ast.Raise)):
            return False
        test = expand_pred(self.repo, self.cls, s.test)
        t = U(test)
        if any(m in t for m in GUARD_MARKS):
            return True
        # comparisons of scalars with 0: `sigma <= 0`
        for n in ast.walk(test):
            if isinstance(n, ast.Compare) and isinstance(
                    n.comparators[0], ast.Constant) and isinstance(
                    n.comparators[0].value, (int, float)) \
                    and not isinstance(n.comparators[0].value, bool) \
                    and isinstance(n.ops[0], (ast.Lt, ast.LtE, ast.Gt,
                                              ast.GtE)):
                return True
        if ('len(' in t or '.size' in t or '.shape' in t) and isinstance(
                last, ast.Raise):
            # input validation: `if x.size != n: raise`
            return True
        return False

    def _stmt(self, s, env, fn, depth, owner):
        if isinstance(s, ast.Expr):
            if isinstance(s.value, ast.Call):
                self.ev(s.value, env, fn, depth, owner)
            return None
        if isinstance(s, ast.If):
            if self._is_guard(s):
                self.guards.append(Guard(s.test, s.body[-1], fn))
                if s.orelse:
                    return self._block(s.orelse, env, fn, depth, owner)
                return None
            if s.orelse and self._is_guard(s, need_exit=False) and not any(
                    isinstance(x, ast.Name) and isinstance(
                        env.get(x.id), bool) for x in ast.walk(s.test)):
                # `if <outside support>: <fill in -inf> elif ...: else: ...`
                # with one common exit: the in-support path is the else arm
                self.guards.append(Guard(s.test, s.body[-1], fn))
                return self._block(s.orelse, env, fn, depth, owner)
            # flags
            fenv = dict(self.flags)
            for k, v in env.items():
                if isinstance(v, bool):
                    fenv[k] = v
                if v is None:
                    fenv[k + ' is None'] = True
            v = beval(s.test, fenv)
            if v is None and '.ndim' in U(s.test):
                v = self._ndim_choice(s)
            if v is None:
                raise Unsupported('undetermined branch `%s` in %s' % (
                    U(s.test)[:60], fn.name))
            return self._block(s.body if v else s.orelse, env, fn, depth,
                               owner)
        if isinstance(s, ast.With):
            return self._block(s.body, env, fn, depth, owner)
        if isinstance(s, ast.Return):
            if s.value is None:
                return ('ret', None)
            return ('ret', self.ev(s.value, env, fn, depth, owner))
        if isinstance(s, ast.Raise):
            return ('raise', None)
        if isinstance(s, ast.Assign):
            val = self.ev(s.value, env, fn, depth, owner)
            shape = None
            v = s.value
            newaxes = None
            if isinstance(v, ast.Subscript) and isinstance(
                    v.value, ast.Call) and isinstance(
                    v.value.func, ast.Attribute) and v.value.func.attr == \
                    'reshape':
                # x.reshape(a, b, c)[:, np.newaxis, :]: the same as a reshape
                # with a unit axis at that place
                elts = v.slice.elts if isinstance(v.slice, ast.Tuple) \
                    else [v.slice]
                if all((isinstance(e_, ast.Slice) and e_.lower is None
                        and e_.upper is None and e_.step is None)
                       or U(e_) in ('np.newaxis', 'None') for e_ in elts):
                    newaxes = [k_ for k_, e_ in enumerate(elts)
                               if U(e_) in ('np.newaxis', 'None')]
                    v = v.value
            if isinstance(v, ast.Call) and isinstance(
                    v.func, ast.Attribute) and v.func.attr == 'reshape':
                # keep `<name>.shape` current across a reshape
                dims = v.args[0].elts if len(v.args) == 1 and isinstance(
                    v.args[0], ast.Tuple) else v.args
                try:
                    shape = Tup(self.ev(d, env, fn, depth, owner)
                                for d in dims)
                    if not all(isinstance(x, sp.Expr) for x in shape):
                        shape = None
                    elif newaxes:
                        lst = list(shape)
                        for k_ in newaxes:
                            lst.insert(k_, sp.Integer(1))
                        shape = Tup(lst)
                except Unsupported:
                    shape = None
                self.reshapes.append((v, shape))
            for t in s.targets:
                self._assign(t, val, env, fn, depth, owner)
                if isinstance(t, ast.Name):
                    # a local bound to a field keeps what is known about
                    # the field being None (`sigma = self._sigma`)
                    k0 = U(v) + ' is None'
                    k1 = t.id + ' is None'
                    if isinstance(v, (ast.Name, ast.Attribute)) \
                            and k0 in self.flags:
                        self.flags[k1] = self.flags[k0]
                    else:
                        self.flags.pop(k1, None)
                    if shape is not None:
                        env[t.id + '.shape'] = shape
                    elif (t.id + '.shape') in env and not (
                            isinstance(v, ast.Call) and U(v.func) in
                            IDENTITY_FUNCS):
                        del env[t.id + '.shape']
            return None
        if isinstance(s, ast.AugAssign):
            cur = self.ev(s.target, env, fn, depth, owner)
            val = self.ev(s.value, env, fn, depth, owner)
            new = self._binop(s.op, cur, val)
            self._assign(s.target, new, env, fn, depth, owner)
            return None
        if isinstance(s, (ast.Pass, ast.Import, ast.ImportFrom)):
            return None
        if isinstance(s, ast.Try):
            return self._block(s.body, env, fn, depth, owner)
        raise Unsupported('statement %s in %s' % (type(s).__name__, fn.name))

    def _ndim_choice(self, s):
        """rank-dispatch: follow the flat-vector branch (`ndim == 1`,
        `ndim != 2`, `ndim < 3`); layouts are decided by R05.1/R05.5."""
        t = s.test
        if isinstance(t, ast.Compare) and isinstance(
                t.comparators[0], ast.Constant):
            c = t.comparators[0].value
            op = t.ops[0]
            one = 1
            return {ast.Eq: one == c, ast.NotEq: one != c, ast.Lt: one < c,
                    ast.Gt: one > c, ast.LtE: one <= c,
                    ast.GtE: one >= c}[type(op)]
        return None

    def _assign(self, t, val, env, fn, depth, owner):
        if isinstance(t, ast.Name):
            env[t.id] = val
        elif isinstance(t, (ast.Tuple, ast.List)):
            if isinstance(val, Opaque):
                for e in t.elts:
                    self._assign(e, Opaque(val.what), env, fn, depth, owner)
                return
            if not isinstance(val, (tuple, Tup)):
                raise Unsupported('unpacking of a non-tuple in %s' % fn.name)
            if len(val) != len(t.elts):
                raise Unsupported('unpacking arity in %s' % fn.name)
            for e, v in zip(t.elts, val):
                self._assign(e, v, env, fn, depth, owner)
        elif isinstance(t, ast.Subscript):
            base = t.value
            if not isinstance(base, ast.Name):
                raise Unsupported('store into %s' % U(t))
            cur = env.get(base.id)
            k = self._const_index(t.slice)
            if k is None:
                # whole-array masked store etc.: keep the value for full
                # slices, otherwise opaque
                if self._full_slice(t.slice):
                    env[base.id] = val
                    return
                raise Unsupported('store `%s` in %s' % (U(t)[:50], fn.name))
            if not isinstance(cur, Slots):
                cur = Slots()
            new = Slots(cur.slots, cur.default)
            new.slots[k] = val
            env[base.id] = new
        elif isinstance(t, ast.Attribute):
            env[U(t)] = val
        else:
            raise Unsupported('assignment target %s' % U(t))

    @staticmethod
    def _full_slice(sl):
        elts = sl.elts if isinstance(sl, ast.Tuple) else [sl]
        return all((isinstance(e, ast.Slice) and e.lower is None
                    and e.upper is None) or (
                        isinstance(e, ast.Constant) and e.value is Ellipsis)
                   for e in elts)

    @staticmethod
    def _const_index(sl):
        """The single constant integer index among full slices / newaxis."""
        elts = sl.elts if isinstance(sl, ast.Tuple) else [sl]
        ks = []
        for e in elts:
            if isinstance(e, ast.Constant) and isinstance(e.value, int) \
                    and not isinstance(e.value, bool):
                ks.append(e.value)
            elif isinstance(e, ast.Slice) and e.lower is None \
                    and e.upper is None and e.step is None:
                continue
            elif isinstance(e, ast.Constant) and e.value is Ellipsis:
                continue
            elif U(e) in ('np.newaxis', 'None'):
                continue
            else:
                return None
        if len(ks) == 1:
            return ks[0]
        return None

    # -- expressions -----------------------------------------------------------
    def ev(self, n, env, fn, depth, owner):
        if isinstance(n, ast.Constant):
            if isinstance(n.value, bool) or n.value is None:
                return n.value
            if isinstance(n.value, (int, float)):
                return sp.nsimplify(n.value, rational=True)
            if isinstance(n.value, str):
                return Opaque('str')
            raise Unsupported('constant %r' % (n.value,))
        if isinstance(n, ast.Name):
            if n.id in env:
                return env[n.id]
            # a module-level constant (`_HALF_LOG_2PI = np.log(2 * np.pi) / 2`)
            mod = self.repo.trees.get(self.rel) if self.rel else None
            if mod is not None and depth < 6:
                defs = [a for a in mod.body if isinstance(a, ast.Assign)
                        and len(a.targets) == 1 and isinstance(
                            a.targets[0], ast.Name)
                        and a.targets[0].id == n.id]
                if len(defs) == 1:
                    return self.ev(defs[0].value, {}, fn, depth + 1, owner)
            raise Unsupported('unbound name `%s` in %s' % (n.id, fn.name))
        if isinstance(n, ast.Attribute):
            s = U(n)
            if s in env:
                return env[s]
            if s in ('np.pi', 'math.pi'):
                return sp.pi
            if s in ('np.inf', 'math.inf'):
                return sp.oo
            if s == 'np.nan':
                return sp.nan
            if s == 'np.newaxis':
                return Opaque('newaxis')
            if n.attr == 'shape':
                return Opaque('shape')
            if n.attr == 'T':
                return self.ev(n.value, env, fn, depth, owner)
            if s in self.flags:
                return self.flags[s]
            raise Unsupported('attribute `%s` in %s' % (s, fn.name))
        if isinstance(n, (ast.Tuple, ast.List)):
            return Tup(self.ev(e, env, fn, depth, owner) for e in n.elts)
        if isinstance(n, ast.UnaryOp):
            v = self.ev(n.operand, env, fn, depth, owner)
            if isinstance(n.op, ast.USub):
                return self._map1(v, lambda x: -x)
            if isinstance(n.op, ast.UAdd):
                return v
            if isinstance(n.op, ast.Not):
                if isinstance(v, bool):
                    return not v
            raise Unsupported('unary %s' % U(n))
        if isinstance(n, ast.BinOp):
            a = self.ev(n.left, env, fn, depth, owner)
            b = self.ev(n.right, env, fn, depth, owner)
            return self._binop(n.op, a, b)
        if isinstance(n, ast.Subscript):
            v = self.ev(n.value, env, fn, depth, owner)
            if isinstance(v, Opaque):
                return Opaque(v.what)
            if isinstance(v, (tuple, Tup)) and not isinstance(v, Slots):
                if isinstance(n.slice, ast.Constant) and isinstance(
                        n.slice.value, int):
                    return v[n.slice.value]
                raise Unsupported('tuple index %s' % U(n))
            k = self._const_index(n.slice)
            if isinstance(v, Slots):
                if k is not None:
                    return v.get(k)
                if self._full_slice(n.slice) or self._elementwise_index(
                        n.slice):
                    return v
                raise Unsupported('index `%s` on slotted array' % U(n))
            # element view of a per-element atom
            return v
        if isinstance(n, ast.Call):
            return self._call(n, env, fn, depth, owner)
        if isinstance(n, ast.Compare):
            return Opaque('bool')
        if isinstance(n, ast.IfExp):
            fenv = dict(self.flags)
            for k, v in env.items():
                if isinstance(v, bool):
                    fenv[k] = v
                if v is None:
                    fenv[k + ' is None'] = True
            v = beval(n.test, fenv)
            if v is None:
                t = U(expand_pred(self.repo, self.cls, n.test))
                if any(m in t for m in GUARD_MARKS):
                    # `<fill value> if <outside support> else <value>`: the
                    # in-support value, the test is recorded as a guard
                    self.guards.append(Guard(n.test, None, fn))
                    return self.ev(n.orelse, env, fn, depth, owner)
                raise Unsupported('conditional expression %s' % U(n)[:50])
            return self.ev(n.body if v else n.orelse, env, fn, depth, owner)
        raise Unsupported('expression %s in %s' % (type(n).__name__, fn.name))

    @staticmethod
    def _elementwise_index(sl):
        elts = sl.elts if isinstance(sl, ast.Tuple) else [sl]
        for e in elts:
            if isinstance(e, ast.Slice) and e.lower is None \
                    and e.upper is None:
                continue
            if U(e) in ('np.newaxis', 'None', 'Ellipsis', '...'):
                continue
            return False
        return True

    def _map1(self, v, f):
        if isinstance(v, Slots):
            return v.map(f)
        if isinstance(v, (Tup, tuple)):
            return Tup(self._map1(x, f) for x in v)
        if isinstance(v, Opaque):
            raise Unsupported('arithmetic on %r' % v)
        if isinstance(v, bool) or v is None:
            raise Unsupported('arithmetic on %r' % (v,))
        return f(v)

    def _binop(self, op, a, b):
        f = {ast.Add: lambda x, y: x + y, ast.Sub: lambda x, y: x - y,
             ast.Mult: lambda x, y: x * y, ast.Div: lambda x, y: x / y,
             ast.Pow: lambda x, y: x ** y,
             ast.FloorDiv: _floordiv,
             ast.Mod: lambda x, y: sp.Mod(x, y)}.get(type(op))
        if f is None:
            raise Unsupported('operator %s' % type(op).__name__)
        if isinstance(a, Slots) and isinstance(b, Slots):
            keys = set(a.slots) | set(b.slots)
            return Slots({k: f(a.get(k), b.get(k)) for k in keys})
        if isinstance(a, Slots):
            return a.map(lambda x: self._binop(op, x, b))
        if isinstance(b, Slots):
            return b.map(lambda y: self._binop(op, a, y))
        for v in (a, b):
            if isinstance(v, (Opaque, Tup, tuple, bool)) or v is None:
                raise Unsupported('arithmetic on %r' % (v,))
        return f(a, b)

    def fresh_eps(self):
        self.neps += 1
        return sp.Symbol('%s%d' % (EPS_PREFIX, self.neps), real=True)

    def _kw(self, call, name, pos, env, fn, depth, owner, default=None):
        for k in call.keywords:
            if k.arg == name:
                return self.ev(k.value, env, fn, depth, owner)
        if pos is not None and pos < len(call.args):
            return self.ev(call.args[pos], env, fn, depth, owner)
        return default

    def _call(self, n, env, fn, depth, owner):
        f = U(n.func)
        ev = lambda e: self.ev(e, env, fn, depth, owner)   # noqa: E731
        if f in UNARY and n.args:
            return self._map1(ev(n.args[0]), UNARY[f])
        if f in IDENTITY_FUNCS and n.args:
            return ev(n.args[0])
        if f in ('np.sum', 'np.ma.sum') and n.args:
            v = ev(n.args[0])
            return self._map1(v, lambda x: S(x))
        if f in ('np.prod', 'np.product') and n.args:
            # a product over the summed axis: exp of the sum of the logs
            v = ev(n.args[0])
            return self._map1(v, lambda x: sp.exp(S(sp.log(x))))
        if f == 'len' and n.args:
            v = ev(n.args[0])
            return S(sp.Integer(1))
        if f == 'isinstance':
            fenv = dict(self.flags)
            for k, v in env.items():
                if isinstance(v, bool):
                    fenv[k] = v
            v = beval(n, fenv)
            return v if isinstance(v, bool) else Opaque('bool')
        if f in ('np.zeros', 'np.zeros_like'):
            return sp.Integer(0)
        if f in ('np.ones', 'np.ones_like'):
            return sp.Integer(1)
        if f in ('np.empty', 'np.empty_like'):
            return Slots()
        if f == 'np.full':
            shape = self._kw(n, 'shape', 0, env, fn, depth, owner)
            fill = self._kw(n, 'fill_value', 1, env, fn, depth, owner)
            self.fulls.append((shape, fill))
            return fill
        if f in ('np.concatenate', 'np.hstack', 'np.vstack') and n.args:
            v = ev(n.args[0])
            return Tup(v)
        if f in ('np.stack', 'numpy.stack') and n.args and isinstance(
                n.args[0], (ast.Tuple, ast.List)):
            # a new axis indexed by the position in the sequence: the same
            # value as an empty array filled slot by slot
            return Slots({k: ev(e) for k, e in enumerate(n.args[0].elts)})
        if f in ('int', 'bool', 'str', 'range', 'np.arange', 'np.shape'):
            return Opaque(f)
        if f in ('np.errstate',):
            return Opaque(f)
        if f in ('_norm_cdf', 'norm.cdf', 'scipy.stats.norm.cdf') and n.args:
            return self._map1(ev(n.args[0]), norm_cdf)
        if f in ('_norm_pdf', 'norm.pdf', 'scipy.stats.norm.pdf') and n.args:
            return self._map1(ev(n.args[0]), norm_pdf)
        if f in ('np.random.default_rng',):
            return Opaque('rng')
        if f in ('np.random.seed',):
            return Opaque('none')
        if isinstance(n.func, ast.Attribute):
            recv = n.func.value
            attr = n.func.attr
            # generator draws
            if attr in ('normal', 'lognormal', 'choice', 'integers',
                        'uniform') and isinstance(recv, ast.Name) \
                    and isinstance(env.get(recv.id), Opaque) \
                    and env[recv.id].what == 'rng':
                return self._draw(attr, n, env, fn, depth, owner)
            if attr == 'rvs':
                return self._rvs(n, env, fn, depth, owner)
            if attr in IDENTITY_METHODS:
                return ev(recv)
            if attr in ('sum',):
                return self._map1(ev(recv), lambda x: S(x))
            # self-method / static method inlining
            if isinstance(recv, ast.Name) and recv.id == 'self' and owner:
                if self.terminal and attr == self.terminal:
                    return Tup([Opaque('terminal')] +
                               [ev(a) for a in n.args])
                k, d = self.repo.resolve(self.cls or owner, attr)
                if d is None:
                    raise Unsupported('unknown method self.%s' % attr)
                return self._inline(d, n, env, fn, depth, k)
        if isinstance(n.func, ast.Name):
            d = self.repo.functions.get((self.rel, n.func.id))
            if d is not None:
                return self._inline(d, n, env, fn, depth, owner,
                                    is_method=False)
        raise Unsupported('call `%s` in %s' % (f[:60], fn.name))

    def _inline(self, d, call, env, fn, depth, owner, is_method=True):
        if depth >= 4:
            raise Unsupported('inlining depth exceeded at %s' % d.name)
        params = [a.arg for a in d.args.args]
        static = any(U(x) == 'staticmethod' for x in d.decorator_list)
        if is_method and not static and params and params[0] == 'self':
            params = params[1:]
        new = {k: v for k, v in env.items() if k.startswith('self.')}
        defaults = d.args.defaults
        dmap = dict(zip(params[len(params) - len(defaults):], defaults))
        for i, p in enumerate(params):
            a = None
            if i < len(call.args):
                a = call.args[i]
            for kw in call.keywords:
                if kw.arg == p:
                    a = kw.value
            if a is not None:
                new[p] = self.ev(a, env, fn, depth, owner)
            elif p in dmap:
                new[p] = self.ev(dmap[p], {}, d, depth, owner)
            else:
                raise Unsupported('argument %s of %s not supplied' % (
                    p, d.name))
        return self.run(d, new, depth + 1, owner)

    # -- stochastic draws ---------------------------------------------------
    def _draw(self, kind, n, env, fn, depth, owner):
        if kind == 'normal':
            loc = self._kw(n, 'loc', 0, env, fn, depth, owner, sp.Integer(0))
            scale = self._kw(n, 'scale', 1, env, fn, depth, owner,
                             sp.Integer(1))
            e = self.fresh_eps()
            self.draws.append(('normal', loc, scale, e))
            return loc + scale * e
        if kind == 'lognormal':
            mean = self._kw(n, 'mean', 0, env, fn, depth, owner,
                            sp.Integer(0))
            sigma = self._kw(n, 'sigma', 1, env, fn, depth, owner,
                             sp.Integer(1))
            e = self.fresh_eps()
            self.draws.append(('lognormal', mean, sigma, e))
            return sp.exp(mean + sigma * e)
        self.draws.append((kind,))
        return Opaque('draw:' + kind)

    def _rvs(self, n, env, fn, depth, owner):
        dist = U(n.func.value)
        kw = {}
        for k in n.keywords:
            if k.arg in ('a', 'b', 'loc', 'scale'):
                kw[k.arg] = self.ev(k.value, env, fn, depth, owner)
        self.draws.append(('rvs', dist, kw))
        e = self.fresh_eps()
        return sp.Function('RVS_' + dist.replace('.', '_'))(
            *[kw.get(x, sp.Symbol('unset_' + x)) for x in
              ('a', 'b', 'loc', 'scale')], e)


# -- algebra helpers -----------------------------------------------------------
def is_zero(e):
    """Decide e == 0 by rewriting; returns True / False / None (undecided).
    False only with a numeric witness (non-zero at a rational point)."""
    if e == 0:
        return True
    try:
        e1 = sp.expand_log(sp.expand(e), force=True)
        e1 = sp.expand(e1)
        if e1 == 0:
            return True
        e2 = sp.simplify(e1)
        if e2 == 0:
            return True
        e3 = sp.simplify(sp.expand_log(sp.logcombine(e2, force=True),
                                       force=True))
        if e3 == 0:
            return True
        # factor the arguments of logarithms: log(a^2+2ab+b^2) = 2 log(a+b)
        e4 = e2.replace(
            lambda x: isinstance(x, sp.log),
            lambda x: sp.expand_log(sp.log(sp.factor(x.args[0])),
                                    force=True))
        if sp.simplify(e4) == 0:
            return True
    except Exception:
        e2 = e
    w = witness(e)
    if w is None:
        return None
    return False if w else None


def witness(e):
    """Evaluate the residual at a few exact rational points (50 digits).
    True  -> non-zero somewhere (positive witness of a difference)
    False -> zero at all points (simplifier incomplete)
    None  -> could not evaluate."""
    syms = sorted(e.free_symbols, key=lambda s: s.name)
    funcs = [a for a in e.atoms(sp.Function)
             if isinstance(a, sp.core.function.AppliedUndef)]
    if funcs:
        # replace uninterpreted applications by fresh symbols
        rep = {}
        for i, a in enumerate(sorted(funcs, key=str)):
            rep[a] = sp.Symbol('_u%d' % i, positive=True)
        e = e.xreplace(rep)
        syms = sorted(e.free_symbols, key=lambda s: s.name)
    pts = [sp.Rational(7, 5), sp.Rational(13, 11), sp.Rational(5, 3),
           sp.Rational(19, 7), sp.Rational(11, 9), sp.Rational(23, 13),
           sp.Rational(3, 2), sp.Rational(17, 19), sp.Rational(29, 23),
           sp.Rational(31, 17)]
    nonzero = False
    ok = 0
    for shift in range(3):
        sub = {s: pts[(i * 3 + shift) % len(pts)] + sp.Rational(shift, 7)
               for i, s in enumerate(syms)}
        try:
            v = sp.N(e.subs(sub), 50)
        except Exception:
            continue
        if v.is_number and v.is_finite:
            ok += 1
            if abs(v) > sp.Float('1e-30'):
                nonzero = True
        elif v.is_number:
            continue
    if ok == 0:
        return None
    return nonzero


class NotASum(Unsupported):
    """The expression is not a sum over elements (positive witness: the
    offending term)."""


def summand(e, elem=()):
    """E linear in S(.) -> the per-element summand.  Coefficients must be
    free of S and of the per-element atoms `elem`."""
    e = sp.expand(e)
    out = sp.Integer(0)
    for term in sp.Add.make_args(e):
        ss = [a for a in term.atoms(sp.Function) if a.func == S]
        if len(ss) != 1:
            raise NotASum('term `%s` is not linear in the sum over '
                          'elements' % str(term)[:80])
        s = ss[0]
        coeff = term / s
        if coeff.has(S):
            raise NotASum('term `%s` is not linear in the sum over '
                          'elements' % str(term)[:80])
        bad = [a for a in elem if coeff.has(a)]
        if bad:
            raise NotASum('term `%s` multiplies a sum by %s, which varies '
                          'per element' % (str(term)[:80], bad[0]))
        out += coeff * s.args[0]
    return out


def has_S(e):
    return any(a.func == S for a in e.atoms(sp.Function))


def gaussian_family(p, y):
    """p as a polynomial a y^2 + b y + c in y: returns (normalised?, mean,
    var) or None if p is not quadratic in y."""
    try:
        P = sp.Poly(sp.expand(sp.expand_log(p, force=True)), y)
    except sp.PolynomialError:
        return None
    if P.degree() != 2:
        return None
    a, b, c = [P.coeff_monomial(y**i) for i in (2, 1, 0)]
    if a.has(y) or b.has(y) or c.has(y):
        return None
    norm = is_zero(c - (b**2 / (4 * a) + sp.log(-a / sp.pi) / 2))
    mean = sp.simplify(-b / (2 * a))
    var = sp.simplify(-1 / (2 * a))
    return norm, mean, var
