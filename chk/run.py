"""CLI: python3-vt -m chk <id> --tier quick|thorough ; --replay <report.json>"""
import argparse
import json
import os
import sys
import traceback

from . import loader, report


def _digest(repo):
    import hashlib
    h = hashlib.sha256()
    for rel in sorted(repo.sha):
        h.update(rel.encode())
        h.update(repo.sha[rel].encode())
    for rel in sorted(repo.overrides):
        h.update(rel.encode())
        h.update(hashlib.sha256(repo.overrides[rel].encode()).digest())
    # the checker itself
    here = os.path.dirname(os.path.abspath(__file__))
    for root, dirs, files in sorted(os.walk(here)):
        dirs.sort()
        for f in sorted(files):
            if f.endswith(('.py', '.json')):
                with open(os.path.join(root, f), 'rb') as fh:
                    h.update(hashlib.sha256(fh.read()).digest())
    # library files read by rules outside the parsed python sources
    lib = os.path.join(repo.root, 'chi', 'library', 'model_library')
    if os.path.isdir(lib):
        for f in sorted(os.listdir(lib)):
            if f.endswith('.xml'):
                with open(os.path.join(lib, f), 'rb') as fh:
                    h.update(hashlib.sha256(fh.read()).digest())
    return h.hexdigest()[:32]


def pooled_findings(repo):
    """Findings of *every* rule on this tree (each rule once, unscoped);
    cached by digest of the sources and of the checker under /verif/.cache
    (an optimisation only: a missing cache is recomputed)."""
    from . import props
    from .rules import lint, cursors
    cache_dir = os.path.join(report.VERIF, '.cache')
    path = os.path.join(cache_dir, 'pool-%s.json' % _digest(repo))
    if os.path.exists(path):
        try:
            with open(path) as f:
                return json.load(f)
        except (OSError, ValueError):
            pass
    rules = {}
    for pid in sorted(props.PROPS):
        for r in props.PROPS[pid]['quick']:
            name = r.__name__
            if name.startswith('r00_') or name.startswith('r05_4_'):
                continue
            rules.setdefault((getattr(r, '__module__', ''), name), r)
    rules[('lint', 'r00')] = lint.r00
    rules[('cursors', 'r05_4')] = cursors.r05_4
    ctx = report.Ctx('POOL', 'quick', quiet=True)
    for key in sorted(rules):
        try:
            rules[key](ctx, repo)
        except Exception:       # a rule that cannot run contributes nothing
            pass
    out = []
    seen = set()
    for f in ctx.findings:
        k = (f['rule'], f['construct'], f['key'])
        if k in seen:
            continue
        seen.add(k)
        out.append({kk: f[kk] for kk in ('rule', 'where', 'construct', 'key',
                                         'msg') if kk in f})
    try:
        os.makedirs(cache_dir, exist_ok=True)
        tmp = path + '.%d' % os.getpid()
        with open(tmp, 'w') as f:
            json.dump(out, f)
        os.replace(tmp, path)
        # keep the cache small
        olds = sorted((os.path.getmtime(os.path.join(cache_dir, x)), x)
                      for x in os.listdir(cache_dir))
        for _, x in olds[:-800]:
            os.remove(os.path.join(cache_dir, x))
    except OSError:
        pass
    return out


def _construct_fn(construct):
    import re
    m = re.match(r'^([A-Za-z_]\w*)\.([A-Za-z_]\w*)', construct)
    if m:
        return (m.group(1), m.group(2))
    m = re.match(r'^([a-z_]\w*)$', construct)
    if m:
        return ('', m.group(1))
    return None


def attribute_pooled(pid, ctx, repo):
    """Add the findings of rules that are not this property's own when the
    construct they name is executed by the property's observation points."""
    from . import props
    from .reach import CallGraph
    spec = props.ENTRY.get(pid)
    if not spec:
        return
    G = CallGraph(repo)
    ents = G.entries(spec)
    reach = G.with_state_writers(G.reachable(ents),
                                 G.reachable(ents, strong=True))
    # code that *drives* an observation point — it calls one directly, with
    # the callee resolved through the class hierarchy — prepares what the
    # observation point sees (the order handed to sort_times, the model a
    # library function configures): its findings concern the property too
    drivers = set()
    for node in G.defs:
        if node in reach:
            continue
        for s_ in G.succ(node):
            if s_ in ents and (node, s_) not in G._weak:
                drivers.add(node)
                break
    reach = reach | drivers
    # a method found on a class also covers the definition it resolves to
    have = {(f['rule'], f['construct'], f['key']) for f in ctx.findings}
    for f in pooled_findings(repo):
        k = (f['rule'], f['construct'], f['key'])
        if k in have:
            continue
        fn = _construct_fn(f['construct'])
        if fn is None:
            continue
        cands = {fn}
        if fn[0] and repo.has_cls(fn[0]):
            d, node = repo.resolve(fn[0], fn[1])
            if node is not None:
                cands.add((d, fn[1]))
        if not (cands & reach):
            continue
        have.add(k)
        ctx.violation(
            f['rule'], f['where'], f['construct'], f['key'],
            f['msg'] + ' [attributed to %s: this code is executed by the '
            'property\'s observation points]' % pid, pooled=True)


def run_property(pid, tier, repo=None, write=True, quiet=False,
                 selftest=True, pooled=True):
    from . import props
    spec = props.PROPS[pid]
    ctx = report.Ctx(pid, tier, quiet=quiet)
    ctx.undecided = list(spec.get('undecided', []))
    ctx.assumptions = list(spec.get('assumptions', []))
    ctx.explanation = spec.get('explanation', '')
    try:
        if repo is None:
            repo = loader.Repo()
    except loader.AnalysisError as e:
        print('ANALYSIS-ERROR property=%s %s' % (pid, e))
        return 2, None, ctx
    rules = list(spec['quick'])
    if tier == 'thorough':
        rules += list(spec.get('thorough', []))
    for rule in rules:
        try:
            rule(ctx, repo)
        except loader.AnalysisError as e:
            ctx.error(getattr(rule, '__name__', '?'), str(e))
        except Exception as e:      # never a traceback exit 1
            tb = traceback.extract_tb(sys.exc_info()[2])[-1]
            ctx.error(getattr(rule, '__name__', '?'),
                      'internal %s: %s (%s:%d)' % (
                          type(e).__name__, e,
                          os.path.basename(tb.filename), tb.lineno))
            if os.environ.get('CHK_DEBUG'):
                traceback.print_exc()
    try:
        if pooled:
            attribute_pooled(pid, ctx, repo)
    except Exception as e:
        ctx.note('attribution', 'cross-attribution not available: %s: %s' % (
            type(e).__name__, e))
    if tier == 'thorough' and selftest and write:
        from . import mutants
        try:
            ctx.selftest = mutants.selftest(
                pid, ctx, consulted=set(repo.consulted))
        except Exception as e:
            ctx.note('self-test', 'could not run: %s: %s' % (
                type(e).__name__, e))
    rc, ev, lines = ctx.finish(repo, write=write)
    return rc, ev, ctx


def main(argv=None):
    ap = argparse.ArgumentParser(prog='chk')
    ap.add_argument('pid', nargs='?')
    ap.add_argument('--tier', default=os.environ.get('VERIF_TIER', 'quick'))
    ap.add_argument('--replay')
    ap.add_argument('--all', action='store_true')
    ap.add_argument('--selftest', action='store_true',
                    help='run the mutant self-test of all rules and fail on '
                         'a miss (development aid)')
    a = ap.parse_args(argv)
    if a.tier not in ('quick', 'thorough'):
        a.tier = 'quick'
    from . import props
    if a.selftest:
        from . import mutants
        return mutants.main(a.pid)
    if a.replay:
        with open(a.replay) as f:
            rep = json.load(f)
        print('replaying %s: [%s] %s — %s' % (
            a.replay, rep.get('rule'), rep.get('construct'), rep.get('msg')))
        rc, ev, ctx = run_property(rep['property'], 'quick', write=False,
                                   quiet=True)
        still = [f for f in ctx.findings
                 if (f['rule'], f['construct'], f['key']) ==
                 (rep['rule'], rep['construct'], rep['key'])]
        if still:
            print('VIOLATION property=%s replay=%s' % (
                rep['property'], a.replay))
            print('  %s [%s] %s — %s' % (
                still[0]['where'], still[0]['rule'], still[0]['construct'],
                still[0]['msg']))
            return 1
        print('not reproduced on the current tree')
        return 0
    pids = sorted(props.PROPS) if a.all else [a.pid]
    worst = 0
    for pid in pids:
        if pid not in props.PROPS:
            print('ANALYSIS-ERROR unknown or unclaimed property %s' % pid)
            return 2
        rc, ev, ctx = run_property(pid, a.tier)
        if ev is not None:
            try:
                import jsonschema
                with open('/root/.vp/EVIDENCE.schema.json') as f:
                    jsonschema.validate(ev, json.load(f))
            except ImportError:
                pass
            except OSError:
                pass
            except Exception as e:
                print('ANALYSIS-ERROR property=%s evidence does not '
                      'validate: %s' % (pid, str(e)[:200]))
                rc = rc or 2
        worst = max(worst, rc) if rc != 1 else 1 if worst != 1 else 1
        if rc == 1:
            worst = 1
    return worst


if __name__ == '__main__':
    try:
        sys.exit(main())
    except SystemExit:
        raise
    except BaseException as e:
        print('ANALYSIS-ERROR internal %s: %s' % (type(e).__name__, e))
        sys.exit(2)
