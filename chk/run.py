"""CLI: python3-vt -m chk <id> --tier quick|thorough ; --replay <report.json>"""
import argparse
import json
import os
import sys
import traceback

from . import loader, report


def run_property(pid, tier, repo=None, write=True, quiet=False,
                 selftest=True):
    from . import props
    spec = props.PROPS[pid]
    ctx = report.Ctx(pid, tier, quiet=quiet)
    ctx.undecided = list(spec.get('undecided', []))
    ctx.assumptions = list(spec.get('assumptions', []))
    ctx.explanation = spec.get('explanation', '')
    try:
        if repo is None:
            repo = loader.Repo()
    except loader.AnalysisError as e:
        print('ANALYSIS-ERROR property=%s %s' % (pid, e))
        return 2, None, ctx
    rules = list(spec['quick'])
    if tier == 'thorough':
        rules += list(spec.get('thorough', []))
    for rule in rules:
        try:
            rule(ctx, repo)
        except loader.AnalysisError as e:
            ctx.error(getattr(rule, '__name__', '?'), str(e))
        except Exception as e:      # never a traceback exit 1
            tb = traceback.extract_tb(sys.exc_info()[2])[-1]
            ctx.error(getattr(rule, '__name__', '?'),
                      'internal %s: %s (%s:%d)' % (
                          type(e).__name__, e,
                          os.path.basename(tb.filename), tb.lineno))
            if os.environ.get('CHK_DEBUG'):
                traceback.print_exc()
    if tier == 'thorough' and selftest and write:
        from . import mutants
        try:
            ctx.selftest = mutants.selftest(
                pid, ctx, consulted=set(repo.consulted))
        except Exception as e:
            ctx.note('self-test', 'could not run: %s: %s' % (
                type(e).__name__, e))
    rc, ev, lines = ctx.finish(repo, write=write)
    return rc, ev, ctx


def main(argv=None):
    ap = argparse.ArgumentParser(prog='chk')
    ap.add_argument('pid', nargs='?')
    ap.add_argument('--tier', default=os.environ.get('VERIF_TIER', 'quick'))
    ap.add_argument('--replay')
    ap.add_argument('--all', action='store_true')
    ap.add_argument('--selftest', action='store_true',
                    help='run the mutant self-test of all rules and fail on '
                         'a miss (development aid)')
    a = ap.parse_args(argv)
    if a.tier not in ('quick', 'thorough'):
        a.tier = 'quick'
    from . import props
    if a.selftest:
        from . import mutants
        return mutants.main(a.pid)
    if a.replay:
        with open(a.replay) as f:
            rep = json.load(f)
        print('replaying %s: [%s] %s — %s' % (
            a.replay, rep.get('rule'), rep.get('construct'), rep.get('msg')))
        rc, ev, ctx = run_property(rep['property'], 'quick', write=False,
                                   quiet=True)
        still = [f for f in ctx.findings
                 if (f['rule'], f['construct'], f['key']) ==
                 (rep['rule'], rep['construct'], rep['key'])]
        if still:
            print('VIOLATION property=%s replay=%s' % (
                rep['property'], a.replay))
            print('  %s [%s] %s — %s' % (
                still[0]['where'], still[0]['rule'], still[0]['construct'],
                still[0]['msg']))
            return 1
        print('not reproduced on the current tree')
        return 0
    pids = sorted(props.PROPS) if a.all else [a.pid]
    worst = 0
    for pid in pids:
        if pid not in props.PROPS:
            print('ANALYSIS-ERROR unknown or unclaimed property %s' % pid)
            return 2
        rc, ev, ctx = run_property(pid, a.tier)
        if ev is not None:
            try:
                import jsonschema
                with open('/root/.vp/EVIDENCE.schema.json') as f:
                    jsonschema.validate(ev, json.load(f))
            except ImportError:
                pass
            except OSError:
                pass
            except Exception as e:
                print('ANALYSIS-ERROR property=%s evidence does not '
                      'validate: %s' % (pid, str(e)[:200]))
                rc = rc or 2
        worst = max(worst, rc) if rc != 1 else 1 if worst != 1 else 1
        if rc == 1:
            worst = 1
    return worst


if __name__ == '__main__':
    try:
        sys.exit(main())
    except SystemExit:
        raise
    except BaseException as e:
        print('ANALYSIS-ERROR internal %s: %s' % (type(e).__name__, e))
        sys.exit(2)
