"""Property -> rules table.  Rules are functions (ctx, repo)."""
from .rules import ndim, iface, wrappers, rng, mech, errmodels, popmodels, switch, copies, cursors, reduced, layout, noise, filters, caches, problems, dosing, sbml, predictive, inference, plots, loglik, purity, lint, forward, contracts, atomic

PROPS = {}

CUR_LL = cursors.scoped('r05_4_loglikelihood', classes=['LogLikelihood'],
                        floor=3)
CUR_HIER = cursors.scoped(
    'r05_4_hierarchical',
    classes=['HierarchicalLogLikelihood', 'HierarchicalLogPosterior',
             'ComposedPopulationModel'], floor=10)
CUR_FILTER = cursors.scoped(
    'r05_4_filter_posterior',
    classes=['PopulationFilterLogPosterior', 'ComposedPopulationFilter',
             'ComposedPopulationModel'], floor=10)
CUR_PRED = cursors.scoped('r05_4_predictive',
                          files=['chi/_predictive_models.py'], floor=1)
CUR_INIT = cursors.scoped(
    'r05_4_initial_points',
    classes=['HierarchicalLogPosterior', 'PopulationFilterLogPosterior'],
    floor=3)


def _anchor_files():
    import json
    import os
    out = {}
    here = os.path.dirname(os.path.dirname(os.path.abspath(__file__)))
    with open(os.path.join(here, 'properties.jsonl')) as f:
        for line in f:
            if line.strip():
                p = json.loads(line)
                files = []
                for x in p['anchors']['files']:
                    if '*' in x:
                        continue
                    files.append(x)
                out[p['id']] = files
    return out


ANCHOR_FILES = _anchor_files()


TECH_COMMON = (
    'scoped def-use / liveness / field-effect lint (R00: stale query across '
    'a configuration call, cache and alias contradictions, gradient '
    'completeness, numpy hazards); findings of every other rule '
    'located in code that the property\'s observation points execute '
    '(resolved call graph closed under field writers)')


def prop(pid, quick, thorough=(), undecided=(), assumptions=(),
         explanation='', technique='', level_text=''):
    quick = list(quick) + [lint.scoped('r00_%s' % pid,
                                       ANCHOR_FILES.get(pid))]
    technique = (technique + '; ' if technique else '') + TECH_COMMON
    PROPS[pid] = dict(quick=list(quick), thorough=list(thorough),
                      undecided=list(undecided),
                      assumptions=list(assumptions),
                      explanation=explanation,
                      technique=technique, level_text=level_text)


COMMON_ASSUME = [
    'Python / numpy / scipy / pandas / myokit semantics of the idioms '
    'enumerated in the transfer functions of chk/',
    'receiver types recovered from the constructors\' isinstance-raise idiom',
    'exception edges are not modelled',
]

prop('C01',
     [CUR_LL, switch.r03_5, errmodels.r04_terms, errmodels.r04_1,
      loglik.r01_2, loglik.r01_3, loglik.r01_4, loglik.r01_5, caches.r08_5, copies.r19_3,
      reduced.r08_1, reduced.r08_2],
     undecided=['that the mechanistic prediction is the model value at that '
                'time (ODE solver)', 'float equality of time points'],
     assumptions=COMMON_ASSUME,
     technique='cursor/partition discipline of the per-output loops, '
               'must-analysis (branch join) that the per-output selector is '
               'applied on every path, sort provenance of the searched '
               'grid, sensitivity-switch typestate, total = sum of '
               'pointwise by term algebra',
     explanation='Decides that the three per-output loops of LogLikelihood '
                 'slice the error parameters with a running cursor that is '
                 'advanced on every path, that each simulate() is reached '
                 'with the switch in the required state for every call '
                 'history, and (C04 rules) that each error model\'s total '
                 'is the sum of its pointwise values.')

prop('C02',
     [iface.r02_1, iface.r02_7, iface.r02_6, wrappers.r02_2, forward.r02_8, forward.r02_10, CUR_HIER,
      layout.r02_3, layout.r02_4, layout.r07_1, popmodels.r05_2,
      layout.r05_3, layout.r05_6, layout.r02_9, contracts.r05_7],
     undecided=['numerical equality of the score with the hand-assembled sum',
                'covariate values reaching the right individual at run time'],
     assumptions=COMMON_ASSUME,
     technique='class-hierarchy analysis: interface exhaustiveness, '
               'signature compatibility, wrapper forwarding / stale-cache '
               'fixpoint over field effects',
     explanation='Decides the structural clauses of C02: every population '
                 'model class that can be constructed implements (with a '
                 'compatible signature) every interface method the '
                 'hierarchical likelihood and the wrappers invoke; wrappers '
                 'forward state-changing calls and keep no stale cache; '
                 'pooled/heterogeneous dimensions are classified through the '
                 'interface.')

prop('C04',
     [errmodels.r04_1, errmodels.r04_terms, reduced.r08_1, reduced.r08_2],
     undecided=['behaviour for inputs outside the documented support other '
                'than the guards (e.g. negative outputs of the '
                'multiplicative model)',
                'shape contracts of the public wrappers beyond the kernels'],
     assumptions=COMMON_ASSUME + [
         'sympy expand/cancel/diff/expand_log as a rewriting engine',
         'the transcription of the docstring densities in chk/spec.py'],
     technique='term algebra on the lifted closed-form kernels (AST -> '
               'sympy terms, Sigma-linearity, symbolic differentiation, '
               'Gaussian-family recognition) + structural guard rule',
     explanation='For each of the 4 error models the three kernels are '
                 'lifted from the AST: total = sum of pointwise, pointwise = '
                 'log of the documented density (recognised as normalised), '
                 'every returned sensitivity block = the symbolic derivative '
                 'in unpacking order; the support guards are compared '
                 'structurally.')

TERM_ASSUME = COMMON_ASSUME + [
    'sympy expand/cancel/diff/expand_log as a rewriting engine',
    'the transcription of the docstring densities in chk/spec.py']

prop('C03',
     [errmodels.r04_terms, popmodels.r05_2, iface.r02_7, switch.r03_5,
      switch.r08_7, CUR_LL, CUR_HIER, layout.r07_1, layout.r05_3,
      noise.r13_3, filters.r12_3, layout.r02_3, reduced.r08_2,
      layout.r13_1, popmodels.r05_5],
     undecided=['mechanistic sensitivities (sundials)',
                'finiteness of scores at run time'],
     assumptions=TERM_ASSUME,
     technique='term algebra: symbolic derivative identities of every '
               'closed-form leaf gradient; signature compatibility of the '
               'gradient call chain',
     explanation='Decides the leaf clauses of C03: every hand-derived '
                 'gradient of an error model and of a continuous population '
                 'model (centred and non-centred, with and without upstream '
                 'sensitivities) is the symbolic derivative of the score the '
                 'same class evaluates, and the score returned with the '
                 'sensitivities is that score.')

prop('C05',
     [ndim.r05_1, popmodels.r05_2, popmodels.r05_5, popmodels.r17_4, cursors.r05_4, layout.r05_3, layout.r05_6, contracts.r05_7, contracts.r05_8, popmodels.r05_9,
      reduced.r08_2],
     undecided=['numerical values at boundary points', '-inf vs nan'],
     assumptions=TERM_ASSUME,
     technique='AST rule over rank-dispatch chains + term algebra on the '
               'lifted density / gradient kernels',
     explanation='Decides the layout-normalisation clause of C05 (every '
                 'rank-dispatch branch normalises the variable it tests) and '
                 'the closed-form clause: log-likelihood = sum of the '
                 'documented log-density, sensitivities = its derivatives, '
                 'non-centred models are standard normal in eta with the '
                 'chain rule through the class\'s own transform.')

prop('C06',
     [errmodels.r06_1, popmodels.r06_2, popmodels.r06_3, contracts.r06_4, contracts.r05_7, rng.r16_2,
      reduced.r08_1, CUR_HIER],
     undecided=['distribution of numpy / scipy draws',
                'quantiles and independence of actual samples'],
     assumptions=TERM_ASSUME + [
         'rng.normal(loc, scale) = loc + scale*eps, rng.lognormal(mean, '
         'sigma) = exp(mean + sigma*eps), scipy truncnorm(a, b, loc, scale) '
         'has standardised bounds'],
     technique='term algebra: noise structure (mean, variance) of the lifted '
               'sampler vs. the Gaussian-family normal form of the lifted '
               'density; closed-form moments',
     explanation='Decides parameterisation agreement between each sampler '
                 'and the density its log-likelihood scores (not the '
                 'distribution of numpy\'s draws): mean and variance of the '
                 'affine noise structure of `sample` equal those recognised '
                 'from the density; scipy truncation bounds are standardised '
                 'correctly; reported moments equal the closed-form moments.')

prop('C07',
     [layout.r07_1, layout.r07_3, layout.r07_4, layout.r07_5, layout.r07_6, iface.r02_7, rng.r16_2, atomic.r11_9,
      popmodels.r05_2, layout.r02_3],
     undecided=['sort stability of np.argsort for large selections',
                'numerical equality with the per-individual evaluation'],
     assumptions=COMMON_ASSUME + [
         'numpy reshape/flatten are C-ordered; fancy indexing with two '
         'index arrays of equal length yields one axis'],
     technique='symbolic shape/layout abstract interpretation (ordered '
               'nesting of flattened axes) of the covariate transform, its '
               'adjoint and the name lists; def-use provenance of the '
               'selection indices',
     explanation='Decides that the flat coefficient vector of the covariate '
                 'model is read (reshape), differentiated (flatten of the '
                 'adjoint) and named in the same (selected > covariate) '
                 'layout for all n_selected, n_cov; that forward and adjoint '
                 'shapes agree; that names are selected with the covariate '
                 'model\'s own normalised selection; that membership tests '
                 'do not meet ndarray rows.')

prop('C08',
     [reduced.r08_1, reduced.r08_2, reduced.r08_3, reduced.r08_4, reduced.r08_6,
      caches.r08_5, switch.r08_7, wrappers.r02_2, forward.r02_8, forward.r02_10, iface.r02_7,
      copies.r19_3, atomic.r11_9, atomic.r11_10],
     undecided=['value equality of evaluations', 'nan in released slots'],
     assumptions=COMMON_ASSUME,
     technique='def-use provenance of the parameter vector through the '
               'Reduced* wrappers (FREE/FULL lattice, path-split on the '
               'mask), sibling comparison of fix_parameters, typestate of '
               'the sensitivity request, stale-cache fixpoint',
     explanation='Decides that each Reduced* wrapper substitutes the fixed '
                 'values with `~mask` before it delegates and filters the '
                 'returned gradients with the same mask; that the three '
                 'fix_parameters implementations only update (mask, values) '
                 'per name, release on None and collapse to None, so the '
                 'state is a function of the name-value set; that a change '
                 'of the free set re-requests enabled sensitivities.')

prop('C09',
     [sbml.r09_1, sbml.r09_2, sbml.r09_3, sbml.r09_4, sbml.r09_5, sbml.r09_6, sbml.r09_7, sbml.r09_8,
      switch.r08_7, reduced.r08_1, mech.r11_1, mech.r11_5, mech.r11_7, mech.r11_8],
     undecided=['the ODE solution and its derivatives (myokit / sundials)',
                'myokit\'s SBML import beyond the SBML level-3 reading of '
                'species in kinetic laws'],
     assumptions=COMMON_ASSUME + [
         'SBML level 3: a species with hasSubstanceUnits=false denotes '
         'amount/compartment size in kinetic laws; reactants lose '
         'stoichiometry * law',
         'the transcription of the ModelLibrary docstring equations'],
     technique='def-use rules on the parameter / state bookkeeping, '
               'permutation-kind tracking (argsort vs. argsort of argsort), '
               'MathML -> term comparison of the shipped SBML files with the '
               'documented equations',
     explanation='Decides the index bookkeeping between the published '
                 'parameter order and the solver: states then constants with '
                 'one boundary, inverse permutation for the states, '
                 'sensitivities requested in published order (also for the '
                 'free set of a reduced model), name maps built in one '
                 'place; and that the rate equations of the four shipped '
                 'SBML files equal the documented equations.')

prop('C10',
     [dosing.r10_1, dosing.r10_2, dosing.r10_5, dosing.r10_7, predictive.r10_6, mech.r11_1, problems.r14_3,
      problems.r14_4],
     undecided=['count and boundary arithmetic of the regimen table over '
                'run-time floats (int(final_time // period), doses exactly '
                'at final_time)', 'cumulative drug input (ODE solver)'],
     assumptions=COMMON_ASSUME + [
         'myokit.pacing.blocktrain(period, duration, offset, level, limit) '
         'and myokit.ProtocolEvent(level, start, duration) semantics'],
     technique='def-use role mapping of the regimen arguments, term lifting '
               'of the myokit expression constructors, control-dependence '
               'rule on the dose multiplier, protocol re-attachment '
               'typestate, row provenance of dataset dose rows',
     explanation='Decides that a regimen (dose, start, duration, period, '
                 'num) becomes blocktrain(level = dose/duration over the '
                 'same duration, offset = start, limit = num); that the '
                 'model surgery builds dA_d/dt = -k_a A_d and dA/dt = RHS + '
                 'k_a A_d resp. RHS + rate bound to pace; that a rebuilt '
                 'simulator keeps the protocol; that the regimen table '
                 'reports level*duration and uses a finite multiplier as it '
                 'is; that dataset dose rows reach their own individual\'s '
                 'protocol row by row.')

prop('C11',
     [mech.r11_1, mech.r11_2, mech.r11_5, mech.r11_7, mech.r11_8, sbml.r09_6, sbml.r09_7, sbml.r09_8, copies.r11_3, copies.r11_6,
      switch.r08_7, atomic.r11_9, atomic.r11_10],
     undecided=['equality of simulation results (ODE solver)'],
     assumptions=COMMON_ASSUME,
     technique='path-sensitive typestate over the statement paths of every '
               'PKPDModel/SBMLModel method with MRO-resolved inlining; '
               'failure-atomicity path rule (no raise after a field effect) '
               'and history-shortcut rule over the field effects of every '
               'configuration method',
     explanation='Decides for every method of the SBML model classes and '
                 'every assignment of its boolean flags that a rebuilt '
                 'simulator gets the current dosing regimen re-attached and '
                 'that a replaced myokit model is followed by a refresh of '
                 'the name/count tables, on every path to a normal exit.')

prop('C12',
     [filters.r12_1, filters.r12_2, filters.r12_3, filters.r12_4,
      filters.r12_5, filters.r12_6, CUR_FILTER],
     undecided=['missing-data invariance (masked-array reduction '
                'semantics)', 'permutation invariance over individuals',
                'gradients of the KDE / mixture filters (softmax chain)'],
     assumptions=TERM_ASSUME + [
         'np.mean / np.var(ddof=1) over the simulated axis are the '
         'documented estimators; logsumexp(x, axis=0) = log sum_s exp x_s'],
     technique='term algebra with estimator atoms (MEAN, VAR1, LSE) on the '
               'lifted scores; chain rule through the estimators for the '
               'Gaussian / log-normal gradients; def-use rule for the '
               'inverse-permutation pairing of the composed filter',
     explanation='Decides that each of the five filters scores the sum over '
                 'measurements of its documented log-density with the '
                 'documented empirical estimates (axis, ddof, bandwidth, '
                 'block split), that the score returned with the '
                 'sensitivities is the same expression, that the Gaussian '
                 'and log-normal gradients are the chain rule through mean '
                 'and variance, and that the composed filter gathers inputs '
                 'with the inverse permutation and outputs with the '
                 'permutation.')

prop('C13',
     [layout.r13_1, noise.r13_3, layout.r02_3, CUR_FILTER, switch.r03_5,
      iface.r02_6, iface.r02_7, filters.r12_4, filters.r12_1, filters.r12_3,
      filters.r12_5, filters.r12_6, reduced.r08_6],
     undecided=['numerical value of the posterior', 'ODE solution'],
     assumptions=TERM_ASSUME + ['numpy reshape/flatten are C-ordered'],
     technique='symbolic shape/layout interpretation of the filter '
               'posterior under enumerated population configurations and '
               'noise modes; term algebra of the noise lines; eta/psi '
               'qualifiers; cursor discipline; switch typestate',
     explanation='Decides that the flat vector [top | bottom | noise] is '
                 'parsed, named and labelled with one layout, that every '
                 'branch of the special-dimension helpers is shape- and '
                 'layout-consistent for all-hierarchical / all-pooled / '
                 'all-heterogeneous (one and two sub-models) populations with '
                 'free and fixed noise scales, that the noise lines apply '
                 'the chain rule of their own branch, and that the '
                 'population density scores eta while the mechanistic model '
                 'receives psi.')

prop('C17',
     [layout.r05_3, layout.r02_4, layout.r13_1, layout.r07_1,
      wrappers.r02_2, forward.r02_8, reduced.r08_4, reduced.r08_6, caches.r08_5, layout.r07_3, popmodels.r17_4, switch.r08_7, CUR_HIER,
      CUR_LL, atomic.r11_9, atomic.r11_10, contracts.r17_5, problems.r14_7],
     undecided=['uniqueness of run-time names (string contents)',
                'bounded enumeration of deeper compositions'],
     assumptions=COMMON_ASSUME + ['numpy reshape/flatten are C-ordered'],
     technique='polynomial identities between symbolic counts, name-list '
               'lengths and gradient shapes per class; layout (nesting) '
               'agreement of names, reshapes and flattened gradients; '
               'stale-cache fixpoint for reconfiguration',
     explanation='Decides per class, for all n_dim / n_ids / n_cov, that '
                 'the number of names, n_parameters and the gradient length '
                 'agree and that names, reshapes and gradients use one '
                 'layout; for the hierarchical and filter posteriors that '
                 'names and IDs cover [bottom | top] resp. [top | bottom | '
                 'noise] with the parsed layout; that wrappers keep no stale '
                 'count across set_n_ids.')

prop('C14',
     [problems.r14_1, problems.r14_2, problems.r14_3, problems.r14_4, problems.r14_6, problems.r14_7,
      copies.r19_3, copies.r11_3, mech.r11_1, layout.r02_9],
     undecided=['pandas dtype coercion', 'effect of unrelated rows beyond '
                'the enumerated filters', 'numerical equality with the '
                'hand-assembled posterior'],
     assumptions=COMMON_ASSUME + [
         'pandas boolean-mask / .loc / notnull / dropna row selection '
         'semantics for the enumerated idioms'],
     technique='row-filter provenance dataflow over the DataFrame idioms of '
               'the controller; def-use and guard analysis of the regimen '
               'hand-over; must-pass-through (path walk) of set_n_ids after '
               'the set of individuals changes',
     explanation='Decides which rows of the dataset reach each sink: times '
                 'and observations of an output (own ID, mapped observable, '
                 'non-missing, same frame), covariate matrix entries (own '
                 'ID and covariate, indexed by the loop counters in '
                 'controller ID order), dose events (own ID, per-row values, '
                 'fresh protocol per individual), and that every '
                 'individual\'s regimen is set on the shared model before '
                 'its likelihood copies it.')

prop('C15',
     [predictive.r15_2, predictive.r15_3, predictive.r15_4, predictive.r15_5, layout.r02_3,
      CUR_PRED, rng.r16_1, rng.r16_2, rng.r16_5],
     undecided=['distributions of the samples', 'posterior row selection '
                'semantics inside xarray', 'weights of the averaged model'],
     assumptions=COMMON_ASSUME + ['numpy broadcasting / flatten are '
                                  'C-ordered'],
     technique='def-use versioning of the time vector between simulation '
               'and labels, symbolic layout of the label columns, random '
               'index bound vs. row count, eta/psi qualifiers, cursor '
               'discipline of the ID shift, RNG provenance',
     explanation='Decides that every sample method labels its values with '
                 'the sorted time vector it simulated, that the '
                 'population-predictive labels are laid out like the '
                 'flattened measurements, that a posterior draw ranges over '
                 'all (chain, draw) rows, that individuals are transformed '
                 'eta -> psi before simulation, that sample IDs of the '
                 'averaged model are shifted by a running count, and that '
                 'the population model knows how many individuals it '
                 'transforms.')

prop('C16',
     [rng.r16_1, rng.r16_2, rng.r16_3, rng.r16_4, rng.r16_5, layout.r16_6, rng.r16_7],
     undecided=['statistical independence of streams from distinct seeds',
                'bit-level reproducibility of numpy generators'],
     assumptions=COMMON_ASSUME + [
         'np.random.default_rng(g) returns a passed-in Generator unchanged'],
     technique='RNG-stream provenance dataflow ({NONE,INT,GEN} powerset) '
               'over every function that takes a seed; who-must-pass rule '
               'for a seed stored on the object',
     explanation='Decides the stream structure behind C16: global-stream '
                 'draws are dominated by a seeding from the seed parameter, '
                 'an integer seed never fans out to several stochastic '
                 'callees, Generator seeds are never re-seeded or used in '
                 'arithmetic, generators are built per call from the seed, '
                 'and every stochastic callee receives a seed-derived value.')

prop('C18',
     [inference.r18_1, inference.r18_2, inference.r18_3, inference.r18_4, CUR_INIT,
      iface.r02_6, layout.r02_4, layout.r13_1, rng.r16_1, rng.r16_5, rng.r16_7,
      atomic.r11_10],
     undecided=['xarray selection semantics', 'equality of dataset entries '
                'with the raw chain'],
     assumptions=COMMON_ASSUME,
     technique='def-use rules on the initial-point assembly, order-'
               'preservation provenance of the individual coordinate, '
               'cursor discipline of the special-dimension removal, layout '
               'of names and IDs, RNG provenance',
     explanation='Decides that initial points take their population block '
                 'from the prior and their individual block from the '
                 'population model at the same point\'s population values '
                 '(n_ids draws, same covariates, special dimensions removed '
                 'through the interface with an advancing cursor), that the '
                 'individual coordinate of the posterior dataset is the '
                 'likelihood\'s unique IDs in their original order, that '
                 'names and IDs have the parsed layout, and that parameter '
                 'maps are applied as one simultaneous substitution.')

prop('C19',
     [copies.r19_3, copies.r11_3, copies.r11_6, switch.r03_5, mech.r11_1,
      mech.r11_5, purity.r19_1, purity.r19_2, purity.r19_4, plots.r20_2, plots.r20_4, switch.r08_7,
      caches.r08_5],
     undecided=['multi-process behaviour (pickling, fork)',
                'exception paths'],
     assumptions=COMMON_ASSUME,
     technique='alias / escape analysis: write-through on arguments and on '
               'borrowed getter results (followed through private helpers), '
               'returned field buffers; ownership analysis of constructor '
               'stores and '
               'copy() methods over field effects; typestate of the '
               'sensitivity switch and of the simulator/protocol pairing',
     explanation='Decides the hidden-state clauses of C19: constructors '
                 'store copies that are deep enough for every class the '
                 'argument may be; copy() shares no mutable state; every '
                 'simulate() is reached with the sensitivity switch in the '
                 'state its use requires, whatever evaluation ran before; a '
                 'rebuilt simulator keeps the dosing protocol and a '
                 'consistent sensitivity flag.')

prop('C20',
     [plots.r20_1, plots.r20_2, plots.r20_3, plots.r20_4],
     undecided=['rank / percentile arithmetic: that the limits enclose at '
                'least the requested fraction and that bands are nested',
                'plotly rendering'],
     assumptions=COMMON_ASSUME + [
         'pandas boolean-mask row selection; unique()/to_numpy() keep the '
         'row order of the frame'],
     technique='row-filter provenance of the trace arguments, alias / '
               'write-through rule on the data argument, def-use and '
               'order-provenance rule on the band polygon and on the rank '
               'normalisation',
     explanation='Decides that each marker trace receives exactly the rows '
                 '{chosen observable, own ID} (dose traces {dose not null, '
                 'own ID}) with x and y from the same filtered frame, that '
                 'the caller\'s frame is never written, that the band '
                 'polygon is [t, reversed t] x [upper, reversed lower] with '
                 'all three sequences in the frame\'s row order, and that '
                 'percentile ranks are taken within each time point.')

# properties not claimed (yet), with the reason printed in MANIFEST.json
NOT_CLAIMED = {}


# -----------------------------------------------------------------------------
# Observation points of every property (from anchors.observe_at): a finding of
# *any* rule that lies in code reachable from them is attributed to the
# property (chk/reach.py); the rules listed in prop(...) above are its own.
# 'K.m' one method (plus K.__init__), 'K+.m' also for all subclasses, 'K.*'
# every public method, 'ALL.m' / 'PLOTS.m' every library / plot class with m.
# -----------------------------------------------------------------------------
ENTRY = {
    'C01': ['LogLikelihood.__call__', 'LogLikelihood.compute_pointwise_ll',
            'LogLikelihood.n_observations', 'LogPosterior.__call__'],
    'C02': ['HierarchicalLogLikelihood.__call__',
            'HierarchicalLogPosterior.__call__',
            'HierarchicalLogLikelihood.get_parameter_names',
            'HierarchicalLogLikelihood.get_id',
            'HierarchicalLogLikelihood.n_parameters',
            'HierarchicalLogPosterior.get_parameter_names',
            'HierarchicalLogPosterior.get_id',
            'HierarchicalLogPosterior.n_parameters'],
    'C03': ['LogLikelihood.evaluateS1', 'LogLikelihood.__call__',
            'LogPosterior.evaluateS1', 'LogPosterior.__call__',
            'HierarchicalLogLikelihood.evaluateS1',
            'HierarchicalLogLikelihood.__call__',
            'HierarchicalLogPosterior.evaluateS1',
            'HierarchicalLogPosterior.__call__'],
    'C04': ['ErrorModel+.compute_log_likelihood',
            'ErrorModel+.compute_pointwise_ll',
            'ErrorModel+.compute_sensitivities',
            'ReducedErrorModel.compute_log_likelihood',
            'ReducedErrorModel.compute_pointwise_ll',
            'ReducedErrorModel.compute_sensitivities'],
    'C05': ['PopulationModel+.compute_log_likelihood',
            'PopulationModel+.compute_sensitivities',
            'PopulationModel+.compute_individual_parameters',
            'PopulationModel+.n_hierarchical_parameters'],
    'C06': ['ErrorModel+.sample', 'ReducedErrorModel.sample',
            'PopulationModel+.sample',
            'PopulationModel+.compute_individual_parameters',
            'PopulationModel+.get_mean_and_std'],
    'C07': ['CovariatePopulationModel.*', 'CovariateModel+.*'],
    'C08': ['ReducedErrorModel.*', 'ReducedMechanisticModel.*',
            'ReducedPopulationModel.*', 'LogLikelihood.fix_parameters',
            'PredictiveModel+.fix_parameters',
            'ProblemModellingController.fix_parameters'],
    'C09': ['SBMLModel+.parameters', 'SBMLModel+.outputs',
            'SBMLModel+.simulate', 'SBMLModel+.enable_sensitivities',
            'SBMLModel+.n_parameters', 'SBMLModel+.set_outputs',
            'ReducedMechanisticModel.parameters',
            'ReducedMechanisticModel.outputs',
            'ReducedMechanisticModel.simulate',
            'ReducedMechanisticModel.enable_sensitivities',
            'ModelLibrary.*'],
    'C10': ['PKPDModel.set_administration', 'PKPDModel.set_dosing_regimen',
            'PKPDModel.simulate', 'PKPDModel.dosing_regimen',
            'PredictiveModel+.get_dosing_regimen',
            'PredictiveModel+.set_dosing_regimen',
            'AveragedPredictiveModel+.set_dosing_regimen',
            'AveragedPredictiveModel+.get_dosing_regimen',
            'ProblemModellingController.get_dosing_regimens',
            'ProblemModellingController.set_data',
            'ProblemModellingController._create_log_likelihoods',
            'LogLikelihood.__init__'],
    'C11': ['SBMLModel+.*', 'ReducedMechanisticModel.*'],
    'C12': ['PopulationFilter+.compute_log_likelihood',
            'PopulationFilter+.compute_sensitivities',
            'PopulationFilter+.sort_times'],
    'C13': ['PopulationFilterLogPosterior.__call__',
            'PopulationFilterLogPosterior.evaluateS1',
            'PopulationFilterLogPosterior.get_parameter_names',
            'PopulationFilterLogPosterior.get_id',
            'PopulationFilterLogPosterior.n_parameters'],
    'C14': ['ProblemModellingController.*', 'LogPosterior.__call__',
            'HierarchicalLogPosterior.__call__'],
    'C15': ['PredictiveModel+.sample', 'AveragedPredictiveModel+.sample'],
    'C16': ['ALL.sample', 'ALL.sample_initial_parameters'],
    'C17': ['ALL.n_parameters', 'ALL.get_parameter_names', 'ALL.get_id',
            'ALL.n_hierarchical_parameters', 'ALL.evaluateS1',
            'ALL.parameters',
            # the counts must agree after every configuration change
            'ALL.set_population_parameters', 'ALL.set_n_ids',
            'ALL.set_dim_names', 'ALL.set_parameter_names',
            'ALL.fix_parameters', 'ALL.set_outputs',
            'ALL.set_administration', 'ALL.set_covariate_names'],
    'C18': ['ALL.get_parameter_names', 'ALL.get_id',
            'ALL.sample_initial_parameters', 'SamplingController.run',
            'SamplingController._format_chains',
            'OptimisationController.run', 'PosteriorPredictiveModel.*',
            '.compute_pointwise_loglikelihood'],
    'C19': ['ALL.__call__', 'ALL.evaluateS1', 'ALL.compute_log_likelihood',
            'ALL.compute_pointwise_ll', 'ALL.compute_sensitivities',
            'ALL.compute_individual_parameters', 'ALL.sample',
            'ALL.simulate', 'ALL.get_mean_and_std',
            'ProblemModellingController.get_log_posterior'],
    'C20': ['PLOTS.add_data', 'PLOTS.add_prediction',
            'PLOTS.add_simulation'],
}
