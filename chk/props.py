"""Property -> rules table.  Rules are functions (ctx, repo)."""
from .rules import ndim, iface, wrappers, rng, mech

PROPS = {}


def prop(pid, quick, thorough=(), undecided=(), assumptions=(),
         explanation='', technique='', level_text=''):
    PROPS[pid] = dict(quick=list(quick), thorough=list(thorough),
                      undecided=list(undecided),
                      assumptions=list(assumptions),
                      explanation=explanation,
                      technique=technique, level_text=level_text)


COMMON_ASSUME = [
    'Python / numpy / scipy / pandas / myokit semantics of the idioms '
    'enumerated in the transfer functions of chk/',
    'receiver types recovered from the constructors\' isinstance-raise idiom',
    'exception edges are not modelled',
]

prop('C02',
     [iface.r02_1, iface.r02_7, iface.r02_6, wrappers.r02_2],
     undecided=['numerical equality of the score with the hand-assembled sum',
                'covariate values reaching the right individual at run time'],
     assumptions=COMMON_ASSUME,
     technique='class-hierarchy analysis: interface exhaustiveness, '
               'signature compatibility, wrapper forwarding / stale-cache '
               'fixpoint over field effects',
     explanation='Decides the structural clauses of C02: every population '
                 'model class that can be constructed implements (with a '
                 'compatible signature) every interface method the '
                 'hierarchical likelihood and the wrappers invoke; wrappers '
                 'forward state-changing calls and keep no stale cache; '
                 'pooled/heterogeneous dimensions are classified through the '
                 'interface.')

prop('C05',
     [ndim.r05_1],
     undecided=['numerical values at boundary points', '-inf vs nan'],
     assumptions=COMMON_ASSUME,
     technique='AST rule over rank-dispatch chains',
     explanation='Decides the layout-normalisation clause of C05: every '
                 'rank-dispatch branch normalises the variable it tests.')

prop('C11',
     [mech.r11_1, mech.r11_2],
     undecided=['equality of simulation results (ODE solver)'],
     assumptions=COMMON_ASSUME,
     technique='path-sensitive typestate over the statement paths of every '
               'PKPDModel/SBMLModel method with MRO-resolved inlining',
     explanation='Decides for every method of the SBML model classes and '
                 'every assignment of its boolean flags that a rebuilt '
                 'simulator gets the current dosing regimen re-attached and '
                 'that a replaced myokit model is followed by a refresh of '
                 'the name/count tables, on every path to a normal exit.')

prop('C16',
     [rng.r16_1, rng.r16_2, rng.r16_3, rng.r16_4, rng.r16_5],
     undecided=['statistical independence of streams from distinct seeds',
                'bit-level reproducibility of numpy generators'],
     assumptions=COMMON_ASSUME + [
         'np.random.default_rng(g) returns a passed-in Generator unchanged'],
     technique='RNG-stream provenance dataflow ({NONE,INT,GEN} powerset) '
               'over every function that takes a seed',
     explanation='Decides the stream structure behind C16: global-stream '
                 'draws are dominated by a seeding from the seed parameter, '
                 'an integer seed never fans out to several stochastic '
                 'callees, Generator seeds are never re-seeded or used in '
                 'arithmetic, generators are built per call from the seed, '
                 'and every stochastic callee receives a seed-derived value.')

# properties not claimed (yet), with the reason printed in MANIFEST.json
NOT_CLAIMED = {}
