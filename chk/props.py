"""Property -> rules table.  Rules are functions (ctx, repo)."""
from .rules import ndim

PROPS = {}


def prop(pid, quick, thorough=(), undecided=(), assumptions=(),
         explanation='', title='', technique='', level_text=''):
    PROPS[pid] = dict(quick=list(quick), thorough=list(thorough),
                      undecided=list(undecided),
                      assumptions=list(assumptions),
                      explanation=explanation, title=title,
                      technique=technique, level_text=level_text)


prop('C05', [ndim.r05_1])

# properties not claimed (yet), with the reason printed in MANIFEST.json
NOT_CLAIMED = {}
