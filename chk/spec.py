"""Documented densities, transcribed from the class docstrings of chi (the
equation in each docstring is quoted next to its transcription).  These are
the reference terms the lifted kernels are compared with."""
import sympy as sp

# atoms shared with the rules
y = sp.Symbol('y', positive=True)            # observation / measurement
yb = sp.Symbol('yb', positive=True)          # model output  \bar{y}
M = sp.Symbol('M', real=True)                # d yb / d mechanistic parameter
psi = sp.Symbol('psi', positive=True)        # individual parameter
eta = sp.Symbol('eta', real=True)            # non-centred fluctuation
mu = sp.Symbol('mu', real=True)
sigma = sp.Symbol('sigma', positive=True)
up = sp.Symbol('up', real=True)              # upstream dlogp/dpsi


def log_normal_pdf(x, mean, std):
    return -sp.log(2 * sp.pi * std**2) / 2 - (x - mean)**2 / (2 * std**2)


def _cdf(x):
    return (1 + sp.erf(x / sp.sqrt(2))) / 2


# ---------------------------------------------------------------------------
# Error models (chi/_error_models.py).  Parameter symbols in unpacking order.
# ---------------------------------------------------------------------------
def error_model_specs():
    s0, s1 = sp.symbols('s0 s1', positive=True)
    return {
        # docstring: p(x|psi,sigma) = N(x | ybar, sigma^2)
        'GaussianErrorModel': dict(
            params=(s0,), logpdf=log_normal_pdf(y, yb, s0),
            family='gaussian'),
        # docstring: sigma_tot = sigma_rel * ybar
        'MultiplicativeGaussianErrorModel': dict(
            params=(s0,), logpdf=log_normal_pdf(y, yb, s0 * yb),
            family='gaussian'),
        # docstring: sigma_tot = sigma_base + sigma_rel * ybar
        'ConstantAndMultiplicativeGaussianErrorModel': dict(
            params=(s0, s1), logpdf=log_normal_pdf(y, yb, s0 + s1 * yb),
            family='gaussian'),
        # docstring: p(x) = 1/(x sqrt(2 pi) sigma_log) exp(-(log x - log ybar
        #            + sigma_log^2/2)^2 / (2 sigma_log^2))   (mean = ybar)
        'LogNormalErrorModel': dict(
            params=(s0,),
            logpdf=-sp.log(y) + log_normal_pdf(
                sp.log(y), sp.log(yb) - s0**2 / 2, s0),
            family='lognormal'),
    }


# ---------------------------------------------------------------------------
# Population models (chi/_population_models.py).
# ---------------------------------------------------------------------------
def population_model_specs():
    return {
        # p(psi|mu,sigma) = N(psi | mu, sigma^2)
        'GaussianModel': dict(
            logpdf=log_normal_pdf(psi, mu, sigma),
            transform=mu + sigma * eta),
        # p(psi|mu_log,sigma_log) = 1/(psi sqrt(2pi) sigma) exp(-(log psi -
        #   mu)^2 / (2 sigma^2));  non-centred: psi = exp(mu + sigma eta)
        'LogNormalModel': dict(
            logpdf=-sp.log(psi) + log_normal_pdf(sp.log(psi), mu, sigma),
            transform=sp.exp(mu + sigma * eta)),
        # p(psi|mu,sigma) = N(psi|mu,sigma^2) / (1 - Phi(-mu/sigma)), psi > 0
        'TruncatedGaussianModel': dict(
            logpdf=log_normal_pdf(psi, mu, sigma)
            - sp.log(1 - _cdf(-mu / sigma)),
            transform=None),
    }


# closed-form moments (for get_mean_and_std)
def population_model_moments():
    a = mu / sigma
    lam = (sp.exp(-a**2 / 2) / sp.sqrt(2 * sp.pi)) / (1 - _cdf(-a))
    return {
        'LogNormalModel': (
            sp.exp(mu + sigma**2 / 2),
            sp.sqrt((sp.exp(sigma**2) - 1) * sp.exp(2 * mu + sigma**2))),
        # truncation of N(mu, sigma^2) to (0, inf): alpha = -mu/sigma
        'TruncatedGaussianModel': (
            mu + sigma * lam,
            sigma * sp.sqrt(1 - a * lam - lam**2)),
    }
