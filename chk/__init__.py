"""Static checkers for the chi properties (see /verif/DESIGN.md)."""
