"""In-memory mutants for the rule self-test (thorough tier).

Each mutant replaces one source fragment of one file *in memory* (nothing is
written anywhere) and names the rule that must report it.  A mutant whose
anchor text is not found in the current tree is skipped (the tree was edited),
never counted as a miss.  The self-test is also what shows that a rule whose
expected count on a healthy tree is zero can fire at all."""
import os
import sys
import time
from concurrent.futures import ProcessPoolExecutor

from . import loader

PM = 'chi/_population_models.py'
EM = 'chi/_error_models.py'
LP = 'chi/_log_pdfs.py'
MM = 'chi/_mechanistic_models.py'
PR = 'chi/_predictive_models.py'
PF = 'chi/_population_filters.py'
CM = 'chi/_covariate_models.py'
PB = 'chi/_problems.py'
INF = 'chi/_inference.py'
TS = 'chi/plots/_time_series.py'

# (id, [properties], file, old, new, expected rule, nth occurrence or None)
MUTANTS = []


def M(mid, props, rel, old, new, rule, nth=0):
    MUTANTS.append(dict(id=mid, props=props, file=rel, old=old, new=new,
                        rule=rule, nth=nth))


def apply_mutant(m, sources):
    src = sources[m['file']]
    idx = -1
    start = 0
    for _ in range(m['nth'] + 1):
        idx = src.find(m['old'], start)
        if idx < 0:
            return None
        start = idx + 1
    return src[:idx] + m['new'] + src[idx + len(m['old']):]


def _run_one(args):
    m, pid = args
    from . import run as runner
    base = loader.Repo()
    new = apply_mutant(m, base.sources)
    if new is None:
        return m['id'], pid, 'skipped', ''
    try:
        repo = loader.Repo(overrides={m['file']: new})
    except loader.AnalysisError as e:
        return m['id'], pid, 'skipped', 'mutant does not parse: %s' % e
    rc, ev, ctx = runner.run_property(pid, 'quick', repo=repo, write=False,
                                      quiet=True, selftest=False)
    hits = [f for f in ctx.findings if f['rule'] == m['rule']]
    if hits:
        return m['id'], pid, 'reported', '%s %s' % (
            hits[0]['construct'], hits[0]['key'])
    return m['id'], pid, 'missed', '; '.join(
        f['rule'] for f in ctx.findings)[:100] + ' | ' + '; '.join(
        ctx.errors)[:200]


def selftest(pid, ctx=None, jobs=None):
    todo = [(m, pid) for m in MUTANTS if pid in m['props']]
    out = dict(mutants=len(todo), reported=0, skipped=0, missed=[])
    if not todo:
        return out
    jobs = jobs or min(16, os.cpu_count() or 4, len(todo))
    with ProcessPoolExecutor(max_workers=jobs) as ex:
        for mid, p, status, info in ex.map(_run_one, todo):
            if status == 'reported':
                out['reported'] += 1
            elif status == 'skipped':
                out['skipped'] += 1
            else:
                out['missed'].append('%s: %s' % (mid, info))
    if ctx is not None and out['missed']:
        ctx.note('self-test', 'mutants not reported: %s' % '; '.join(
            out['missed']))
    return out


def main(pid=None):
    from . import props
    pids = [pid] if pid else sorted(props.PROPS)
    bad = 0
    t0 = time.time()
    for p in pids:
        r = selftest(p)
        print('%s self-test: %d mutants, %d reported, %d skipped, %d missed'
              % (p, r['mutants'], r['reported'], r['skipped'],
                 len(r['missed'])))
        for m in r['missed']:
            print('   MISSED', m)
            bad += 1
    print('self-test wall %.1fs' % (time.time() - t0))
    return 1 if bad else 0


# =============================================================================
# C04 error models
# =============================================================================
M('em-sign', ['C04', 'C03'], EM,
  "- np.sum((model_output - observations)**2) / sigma**2 / 2",
  "- np.sum((model_output - observations)**2) / sigma**2", 'R04.2')
M('em-power', ['C04', 'C03'], EM, "squared_error / sigma_tot**3 * model_output",
  "squared_error / sigma_tot**2 * model_output", 'R04.4')
M('em-jacobian', ['C04'], EM, "            - np.log(observations) \\\n",
  "", 'R04.3')
M('em-guard-lt', ['C04'], EM, "if sigma <= 0:", "if sigma < 0:", 'R04.1')
M('em-guard-len', ['C04'], EM, "model_sensitivities.shape[1] + 2",
  "model_sensitivities.shape[1] + 1", 'R04.1')
M('em-order', ['C04', 'C03'], EM,
  "np.concatenate((dpsi, dsigma_base, dsigma_rel))",
  "np.concatenate((dpsi, dsigma_rel, dsigma_base))", 'R04.4')
M('em-lognormal-mean', ['C04'], EM,
  "np.log(model_output) - sigma**2 / 2\n                - np.log(observations)\n            )**2) / sigma**2 / 2",
  "np.log(model_output) + sigma**2 / 2\n                - np.log(observations)\n            )**2) / sigma**2 / 2",
  'R04.2')

# =============================================================================
# C05 / C06 population models
# =============================================================================
M('pm-trunc-dsigma', ['C05', 'C03'], PM,
  "-1 + (psi - mus)**2 / sigmas**2\n                + _norm_pdf",
  "-1 + (psi - mus)**2 / sigmas**2\n                - _norm_pdf", 'R05.2')
M('pm-gauss-dstd', ['C05', 'C03'], PM,
  "dstd = (-1 + (psi - mus)**2 / vars) / np.sqrt(vars)",
  "dstd = (-1 + (psi - mus)**2 / vars) / vars", 'R05.2')
M('pm-lognormal-jac', ['C05'], PM,
  "np.log(2 * np.pi * vars) / 2 + np.log(observations)\n",
  "np.log(2 * np.pi * vars) / 2\n", 'R05.2')
M('pm-lognormal-dpsi', ['C05', 'C03'], PM,
  "dpsi_dtheta[:, 1] = etas * psi", "dpsi_dtheta[:, 1] = etas", 'R05.2')
M('pm-noncentred-deta', ['C05', 'C03'], PM,
  "dlogp_deta = dlogp_dpsi * dpsi_deta + deta",
  "dlogp_deta = dlogp_dpsi + deta", 'R05.2')
M('pm-upstream-dropped', ['C05', 'C03'], PM,
  "        if dlogp_dpsi is not None:\n            dpsi += dlogp_dpsi\n\n        return self._shape(score, dpsi, dtheta, reduce, flattened)\n\n    def get_mean_and_std",
  "        return self._shape(score, dpsi, dtheta, reduce, flattened)\n\n    def get_mean_and_std",
  'R05.2')
M('pm-ndim-wrong-var', ['C05'], PM,
  "        elif parameters.ndim == 2:\n            parameters = parameters[np.newaxis, ...]\n\n        # Parse parameters\n        mus = parameters[:, 0]\n        sigmas = parameters[:, 1]\n\n        if np.any(sigmas <= 0):",
  "        elif parameters.ndim == 2:\n            n_parameters = parameters[np.newaxis, ...]\n\n        # Parse parameters\n        mus = parameters[:, 0]\n        sigmas = parameters[:, 1]\n\n        if np.any(sigmas <= 0):",
  'R05.1')
M('pm-sample-scale', ['C06'], PM,
  "samples = rng.normal(\n            loc=mus, scale=sigmas, size=sample_shape)",
  "samples = rng.normal(\n            loc=mus, scale=sigmas**2, size=sample_shape)",
  'R06.2')
M('pm-lognormal-moment', ['C06'], PM,
  "mean = np.exp(mus + sigmas**2 / 2)", "mean = np.exp(mus + sigmas / 2)",
  'R06.3')
M('em-sample-lognormal-mean', ['C06'], EM,
  "mean_log = -sigma_log**2 / 2", "mean_log = -sigma_log / 2", 'R06.1')
M('em-sample-mult', ['C06'], EM,
  "samples = model_output + model_output * rel_samples",
  "samples = model_output + rel_samples", 'R06.1')
