"""In-memory mutants for the rule self-test (thorough tier).

Each mutant replaces one source fragment of one file *in memory* (nothing is
written anywhere) and names the rule that must report it.  A mutant whose
anchor text is not found in the current tree is skipped (the tree was edited),
never counted as a miss.  The self-test is also what shows that a rule whose
expected count on a healthy tree is zero can fire at all."""
import os
import sys
import time
from concurrent.futures import ProcessPoolExecutor

from . import loader

PM = 'chi/_population_models.py'
EM = 'chi/_error_models.py'
LP = 'chi/_log_pdfs.py'
MM = 'chi/_mechanistic_models.py'
PR = 'chi/_predictive_models.py'
PF = 'chi/_population_filters.py'
CM = 'chi/_covariate_models.py'
PB = 'chi/_problems.py'
INF = 'chi/_inference.py'
TS = 'chi/plots/_time_series.py'

# (id, [properties], file, old, new, expected rule, nth occurrence or None)
MUTANTS = []


def M(mid, props, rel, old, new, rule, nth=0):
    MUTANTS.append(dict(id=mid, props=props, file=rel, old=old, new=new,
                        rule=rule, nth=nth))


def apply_mutant(m, sources):
    src = sources[m['file']]
    idx = -1
    start = 0
    for _ in range(m['nth'] + 1):
        idx = src.find(m['old'], start)
        if idx < 0:
            return None
        start = idx + 1
    return src[:idx] + m['new'] + src[idx + len(m['old']):]


def _run_one(args):
    m, pid = args
    from . import run as runner
    base = loader.Repo()
    new = apply_mutant(m, base.sources)
    if new is None:
        return m['id'], pid, 'skipped', ''
    try:
        repo = loader.Repo(overrides={m['file']: new})
    except loader.AnalysisError as e:
        return m['id'], pid, 'skipped', 'mutant does not parse: %s' % e
    rc, ev, ctx = runner.run_property(pid, 'quick', repo=repo, write=False,
                                      quiet=True, selftest=False,
                                      pooled=False)
    hits = [f for f in ctx.findings if f['rule'] == m['rule']]
    if hits:
        return m['id'], pid, 'reported', '%s %s' % (
            hits[0]['construct'], hits[0]['key'])
    return m['id'], pid, 'missed', '; '.join(
        f['rule'] for f in ctx.findings)[:100] + ' | ' + '; '.join(
        ctx.errors)[:200]


def selftest(pid, ctx=None, jobs=None, consulted=None):
    todo = [(m, pid) for m in MUTANTS if pid in m['props']]
    out = dict(mutants=len(todo), reported=0, skipped=0, missed=[])
    if not todo:
        return out
    jobs = jobs or min(16, os.cpu_count() or 4, len(todo))
    with ProcessPoolExecutor(max_workers=jobs) as ex:
        for mid, p, status, info in ex.map(_run_one, todo):
            if status == 'reported':
                out['reported'] += 1
            elif status == 'skipped':
                out['skipped'] += 1
            else:
                out['missed'].append('%s: %s' % (mid, info))
    if ctx is not None and out['missed']:
        ctx.note('self-test', 'mutants not reported: %s' % '; '.join(
            out['missed']))
    try:
        out['corpus'] = corpus(pid, consulted=consulted)
        if ctx is not None and (out['corpus']['seeded_missed']
                                or out['corpus']['benign_alarm']):
            ctx.note('self-test', 'corpus: seeded changes not reported: %s; '
                     'refactorings not silent: %s' % (
                         ', '.join(out['corpus']['seeded_missed']) or '-',
                         ', '.join(out['corpus']['benign_alarm']) or '-'))
    except Exception as e:
        out['corpus'] = dict(error='%s: %s' % (type(e).__name__, e))
    return out


# -- corpus regression (patches kept under /verif/seeded and /verif/benign) --
def _patched_sources(patch, base_sources):
    """Apply a unified diff in a temporary directory outside /repo and
    /verif (removed at once) -> {relpath: text} or None."""
    import re
    import shutil
    import subprocess
    import tempfile
    with open(patch) as f:
        text = f.read()
    files = sorted(set(re.findall(r'^\+\+\+ b/(\S+)', text, re.M)))
    tmp = tempfile.mkdtemp(prefix='chk-', dir='/dev/shm' if os.path.isdir(
        '/dev/shm') else None)
    try:
        for rel in files:
            src = os.path.join(loader.REPO, rel)
            dst = os.path.join(tmp, rel)
            os.makedirs(os.path.dirname(dst), exist_ok=True)
            if os.path.exists(src):
                shutil.copy(src, dst)
        r = subprocess.run(['patch', '-p1', '-s', '-i',
                            os.path.abspath(patch)], cwd=tmp,
                           capture_output=True, text=True)
        if r.returncode != 0:
            return None
        out = {}
        for rel in files:
            if rel.endswith(('.py', '.xml')) and rel.startswith('chi/') \
                    and 'tests' not in rel:
                with open(os.path.join(tmp, rel)) as f:
                    out[rel] = f.read()
        return out
    finally:
        shutil.rmtree(tmp, ignore_errors=True)


def _run_patch(args):
    patch, pid, pooled = args
    from . import run as runner
    ov = _patched_sources(patch, None)
    if ov is None:
        return patch, 'skipped'
    try:
        repo = loader.Repo(overrides=ov)
    except loader.AnalysisError:
        return patch, 'skipped'
    rc, ev, ctx = runner.run_property(pid, 'quick', repo=repo, write=False,
                                      quiet=True, selftest=False,
                                      pooled=pooled)
    return patch, {0: 'silent', 1: 'reported', 2: 'error'}.get(rc, 'error')


def corpus(pid, jobs=None, consulted=None):
    """Seeded changes of this property must be reported, kept refactorings
    must leave the check silent.  Patches that no longer apply are skipped.
    Outcome is evidence about the machinery, never a verdict on /repo."""
    import glob
    import json
    here = os.path.dirname(os.path.dirname(os.path.abspath(__file__)))
    seeds = sorted(glob.glob(os.path.join(here, 'seeded', pid + '-*',
                                          'patch.diff')))
    benign = []
    for d in sorted(glob.glob(os.path.join(here, 'benign', '*'))):
        p = os.path.join(d, 'patch.diff')
        if not os.path.exists(p):
            continue
        if consulted is not None:
            # a refactoring of files this property's rules never read
            # cannot change their verdict
            try:
                with open(os.path.join(d, 'meta.json')) as f:
                    files = set(json.load(f).get('files', []))
            except (OSError, ValueError):
                files = set()
            if files and not (files & set(consulted)):
                continue
        benign.append(p)
    out = dict(seeded=len(seeds), seeded_reported=0, seeded_missed=[],
               benign=len(benign), benign_silent=0, benign_alarm=[],
               skipped=0)
    todo = [(p, pid, True) for p in seeds] + [(p, pid, False)
                                              for p in benign]
    if not todo:
        return out
    jobs = jobs or min(16, os.cpu_count() or 4, len(todo))
    with ProcessPoolExecutor(max_workers=jobs) as ex:
        for patch, st in ex.map(_run_patch, todo):
            name = os.path.basename(os.path.dirname(patch))
            if st == 'skipped':
                out['skipped'] += 1
            elif patch in seeds:
                if st == 'reported':
                    out['seeded_reported'] += 1
                else:
                    out['seeded_missed'].append('%s (%s)' % (name, st))
            else:
                if st == 'silent':
                    out['benign_silent'] += 1
                else:
                    out['benign_alarm'].append('%s (%s)' % (name, st))
    return out


def main(pid=None):
    from . import props
    pids = [pid] if pid else sorted(props.PROPS)
    bad = 0
    t0 = time.time()
    for p in pids:
        r = selftest(p)
        print('%s self-test: %d mutants, %d reported, %d skipped, %d missed'
              % (p, r['mutants'], r['reported'], r['skipped'],
                 len(r['missed'])))
        for m in r['missed']:
            print('   MISSED', m)
            bad += 1
    print('self-test wall %.1fs' % (time.time() - t0))
    return 1 if bad else 0


# =============================================================================
# C04 error models
# =============================================================================
M('em-sign', ['C04', 'C03'], EM,
  "- np.sum((model_output - observations)**2) / sigma**2 / 2",
  "- np.sum((model_output - observations)**2) / sigma**2", 'R04.2')
M('em-power', ['C04', 'C03'], EM, "squared_error / sigma_tot**3 * model_output",
  "squared_error / sigma_tot**2 * model_output", 'R04.4')
M('em-jacobian', ['C04'], EM, "            - np.log(observations) \\\n",
  "", 'R04.3')
M('em-guard-lt', ['C04'], EM, "if sigma <= 0:", "if sigma < 0:", 'R04.1')
M('em-guard-len', ['C04'], EM, "model_sensitivities.shape[1] + 2",
  "model_sensitivities.shape[1] + 1", 'R04.1')
M('em-order', ['C04', 'C03'], EM,
  "np.concatenate((dpsi, dsigma_base, dsigma_rel))",
  "np.concatenate((dpsi, dsigma_rel, dsigma_base))", 'R04.4')
M('em-lognormal-mean', ['C04'], EM,
  "np.log(model_output) - sigma**2 / 2\n                - np.log(observations)\n            )**2) / sigma**2 / 2",
  "np.log(model_output) + sigma**2 / 2\n                - np.log(observations)\n            )**2) / sigma**2 / 2",
  'R04.2')

# =============================================================================
# C05 / C06 population models
# =============================================================================
M('pm-trunc-dsigma', ['C05', 'C03'], PM,
  "-1 + (psi - mus)**2 / sigmas**2\n                + _norm_pdf",
  "-1 + (psi - mus)**2 / sigmas**2\n                - _norm_pdf", 'R05.2')
M('pm-gauss-dstd', ['C05', 'C03'], PM,
  "dstd = (-1 + (psi - mus)**2 / vars) / np.sqrt(vars)",
  "dstd = (-1 + (psi - mus)**2 / vars) / vars", 'R05.2')
M('pm-lognormal-jac', ['C05'], PM,
  "np.log(2 * np.pi * vars) / 2 + np.log(observations)\n",
  "np.log(2 * np.pi * vars) / 2\n", 'R05.2')
M('pm-lognormal-dpsi', ['C05', 'C03'], PM,
  "dpsi_dtheta[:, 1] = etas * psi", "dpsi_dtheta[:, 1] = etas", 'R05.2')
M('pm-noncentred-deta', ['C05', 'C03'], PM,
  "dlogp_deta = dlogp_dpsi * dpsi_deta + deta",
  "dlogp_deta = dlogp_dpsi + deta", 'R05.2')
M('pm-upstream-dropped', ['C05', 'C03'], PM,
  "        if dlogp_dpsi is not None:\n            dpsi += dlogp_dpsi\n\n        return self._shape(score, dpsi, dtheta, reduce, flattened)\n\n    def get_mean_and_std",
  "        return self._shape(score, dpsi, dtheta, reduce, flattened)\n\n    def get_mean_and_std",
  'R05.2')
M('pm-ndim-wrong-var', ['C05'], PM,
  "        elif parameters.ndim == 2:\n            parameters = parameters[np.newaxis, ...]\n\n        # Parse parameters\n        mus = parameters[:, 0]\n        sigmas = parameters[:, 1]\n\n        if np.any(sigmas <= 0):",
  "        elif parameters.ndim == 2:\n            n_parameters = parameters[np.newaxis, ...]\n\n        # Parse parameters\n        mus = parameters[:, 0]\n        sigmas = parameters[:, 1]\n\n        if np.any(sigmas <= 0):",
  'R05.1')
M('pm-sample-scale', ['C06'], PM,
  "samples = rng.normal(\n            loc=mus, scale=sigmas, size=sample_shape)",
  "samples = rng.normal(\n            loc=mus, scale=sigmas**2, size=sample_shape)",
  'R06.2')
M('pm-lognormal-moment', ['C06'], PM,
  "mean = np.exp(mus + sigmas**2 / 2)", "mean = np.exp(mus + sigmas / 2)",
  'R06.3')
M('em-sample-lognormal-mean', ['C06'], EM,
  "mean_log = -sigma_log**2 / 2", "mean_log = -sigma_log / 2", 'R06.1')
M('em-sample-mult', ['C06'], EM,
  "samples = model_output + model_output * rel_samples",
  "samples = model_output + rel_samples", 'R06.1')

# =============================================================================
# interface / wrappers (C02, C08, C17)
# =============================================================================
M('if-abstract', ['C02'], PM,
  "    def compute_individual_parameters(\n            self, parameters, eta, return_eta=False, *args, **kwargs):\n        \"\"\"\n        Returns the individual parameters.\n\n        The truncated",
  "    def compute_individual_parameters_disabled(\n            self, parameters, eta, return_eta=False, *args, **kwargs):\n        \"\"\"\n        Returns the individual parameters.\n\n        The truncated",
  'R02.1')
M('if-kwarg', ['C02', 'C03', 'C08'], PM,
  "            reduce=False, *args, **kwargs):\n        \"\"\"\n        Returns the log-likelihood of the population model parameters and\n        its sensitivity to the population parameters as well as the\n        observations.\n\n        The sensitivities of the bottom-level log-likelihoods with respect to\n        the ``observations`` (bottom-level parameters) may be provided using\n        ``dlogp_dpsi``, in order to compute the sensitivities of the full\n        hierarchical log-likelihood.\n\n        The log-likelihood and sensitivities are returned as a tuple\n        ``(score, deta, dtheta)``.\n\n        :param parameters: Parameters of the population model.\n        :type parameters: np.ndarray of shape ``(n_parameters,)``\n",
  "            reduce=False):\n        \"\"\"\n        Returns the log-likelihood of the population model parameters and\n        its sensitivity to the population parameters as well as the\n        observations.\n\n        The sensitivities of the bottom-level log-likelihoods with respect to\n        the ``observations`` (bottom-level parameters) may be provided using\n        ``dlogp_dpsi``, in order to compute the sensitivities of the full\n        hierarchical log-likelihood.\n\n        The log-likelihood and sensitivities are returned as a tuple\n        ``(score, deta, dtheta)``.\n\n        :param parameters: Parameters of the population model.\n        :type parameters: np.ndarray of shape ``(n_parameters,)``\n",
  'R02.7')
M('if-isinstance', ['C02', 'C18'], LP,
  "            if pop_model.n_hierarchical_dim() == 0:\n                current_dim += n_dim\n                continue\n            end_dim = current_dim + n_dim\n            dims += list(range(current_dim, end_dim))\n            current_dim = end_dim\n        for idx, bottom_params in enumerate(bottom_parameters):\n            bottom_parameters[idx] = bottom_params[:, dims].flatten()\n\n        initial_params[:, :n_bottom]",
  "            if isinstance(pop_model, chi.PooledModel):\n                current_dim += n_dim\n                continue\n            end_dim = current_dim + n_dim\n            dims += list(range(current_dim, end_dim))\n            current_dim = end_dim\n        for idx, bottom_params in enumerate(bottom_parameters):\n            bottom_parameters[idx] = bottom_params[:, dims].flatten()\n\n        initial_params[:, :n_bottom]",
  'R02.6')
M('wr-forward', ['C02', 'C08', 'C17'], PM,
  "        super(CovariatePopulationModel, self).set_n_ids(n_ids)\n        self._population_model.set_n_ids(n_ids)\n",
  "        super(CovariatePopulationModel, self).set_n_ids(n_ids)\n",
  'R02.2')
M('wr-stale', ['C02', 'C17'], PM,
  "        self._n_pop = self._population_model.n_parameters()\n        self._special_dims, self._n_pooled_dims, self._n_hetero_dims = \\\n            self._population_model.get_special_dims()\n\n    def set_parameter_names",
  "\n    def set_parameter_names", 'R02.2')
M('role-psi-to-pop', ['C02', 'C13'], LP,
  "        s, dscore = self._population_model.compute_sensitivities(\n            top_parameters, bottom_parameters, covariates=self._covariates,",
  "        s, dscore = self._population_model.compute_sensitivities(\n            top_parameters, psi, covariates=self._covariates,",
  'R02.3')
M('role-eta-to-ll', ['C02'], LP,
  "            l, dl_dpsi = log_likelihood.evaluateS1(psi[idi])",
  "            l, dl_dpsi = log_likelihood.evaluateS1(bottom_parameters[idi])",
  'R02.3')
M('hier-cut', ['C02'], LP,
  "        bottom_parameters = parameters[:self._n_bottom]\n        top_parameters = parameters[self._n_bottom:]\n\n        # Broadcast pooled parameters and reshape bottom parameters to\n        # (n_ids, n_dim)\n        bottom_parameters = \\\n            self._population_model.compute_individual_parameters(\n                parameters=top_parameters,\n                eta=bottom_parameters,\n                covariates=self._covariates,\n                return_eta=True\n            )\n\n        # Compute population model score",
  "        bottom_parameters = parameters[:self._n_bottom]\n        top_parameters = parameters[self._n_bottom - 1:]\n\n        # Broadcast pooled parameters and reshape bottom parameters to\n        # (n_ids, n_dim)\n        bottom_parameters = \\\n            self._population_model.compute_individual_parameters(\n                parameters=top_parameters,\n                eta=bottom_parameters,\n                covariates=self._covariates,\n                return_eta=True\n            )\n\n        # Compute population model score",
  'R02.4')
M('hier-names-tile', ['C02', 'C17'], LP,
  "        names = names * self._n_ids\n        names += self._population_model.get_parameter_names()",
  "        names = [name for name in names for _ in range(self._n_ids)]\n        names += self._population_model.get_parameter_names()",
  'R02.4')

# =============================================================================
# cursors (C01, C05, C13, C15, C18)
# =============================================================================
M('cur-ll-advance', ['C01', 'C03'], LP,
  "                observations=self._observations[output_id]))\n\n            # Shift start indices\n            start = end",
  "                observations=self._observations[output_id]))", 'R05.4')
M('cur-composed-param', ['C05', 'C02'], PM,
  "            current_dim = end_dim\n            current_param = end_param\n\n        return score\n",
  "            current_dim = end_dim\n\n        return score\n", 'R05.4')
M('cur-filter-time', ['C12', 'C13'], PF,
  "                simulated_obs[:, :, current_time_id:end_time_id])\n            current_time_id = end_time_id\n\n        return score",
  "                simulated_obs[:, :, current_time_id:end_time_id])\n\n        return score",
  'R05.4')
M('cur-shift', ['C13'], LP, "            shift += end_dim - start_dim",
  "            shift = end_dim - start_dim", 'R05.4')

# =============================================================================
# RNG (C16, C15, C06)
# =============================================================================
M('rng-global', ['C16'], PR, "        model_draws = seed.choice(",
  "        model_draws = np.random.choice(", 'R16.1')
M('rng-fanout', ['C16', 'C06'], PM,
  "                    n_samples=n_samples,\n                    seed=rng,\n                    covariates=cov)",
  "                    n_samples=n_samples,\n                    seed=seed,\n                    covariates=cov)",
  'R16.2')
M('rng-gen-reseed', ['C16'], PM,
  "            seed = seed.integers(low=0, high=1E6)\n        np.random.seed(seed)",
  "            pass\n        np.random.seed(seed)", 'R16.3')
M('rng-stored', ['C16'], EM,
  "        rng = np.random.default_rng(seed=seed)\n        samples = rng.normal(loc=0, scale=sigma, size=sample_shape)",
  "        self._rng = np.random.default_rng(seed=seed)\n        rng = self._rng\n        samples = rng.normal(loc=0, scale=sigma, size=sample_shape)",
  'R16.4')
M('rng-unseeded-callee', ['C16', 'C15'], PR,
  "        patients = self._population_model.sample(\n            parameters=parameters, n_samples=n_samples, seed=seed,\n            covariates=covariates)",
  "        patients = self._population_model.sample(\n            parameters=parameters, n_samples=n_samples,\n            covariates=covariates)",
  'R16.5')
M('rng-eps-broadcast', ['C16'], LP,
  "            size=(\n                n_samples,\n                self._n_samples * self._n_times * self._n_observables\n            )",
  "            size=(\n                self._n_samples * self._n_times * self._n_observables\n            )",
  'R16.6')

# =============================================================================
# mechanistic typestate / copies (C10, C11, C19)
# =============================================================================
M('mech-noattach', ['C11', 'C10', 'C19'], MM,
  "        self._simulator = myokit.Simulation(model)\n        self._simulator.set_protocol(self._dosing_regimen)\n",
  "        self._simulator = myokit.Simulation(model)\n", 'R11.1')
M('mech-regimen-stale', ['C11', 'C10'], MM,
  "        self._simulator.set_protocol(dosing_regimen)\n        self._dosing_regimen = dosing_regimen",
  "        self._dosing_regimen = dosing_regimen", 'R11.1')
M('mech-norefresh', ['C11'], MM,
  "        self._model = model\n        original_outputs = self._output_names\n        self._set_number_and_names()",
  "        self._model = model\n        original_outputs = self._output_names",
  'R11.2')
M('mech-flag', ['C11', 'C19'], MM,
  "        model._simulator = myokit.Simulation(myokit_model)\n        model._has_sensitivities = False",
  "        model._simulator = myokit.Simulation(myokit_model)", 'R11.5')
M('mech-shallow', ['C11', 'C19'], MM,
  "        # Copy the mechanistic model\n        model = copy.deepcopy(self)\n\n        # Replace myokit model by safe copy and create simulator",
  "        # Copy the mechanistic model\n        model = copy.copy(self)\n\n        # Replace myokit model by safe copy and create simulator",
  'R11.3')
M('mech-vanilla', ['C11', 'C19'], MM,
  "        self._vanilla_model = self._model.clone()",
  "        self._vanilla_model = self._model", 'R11.6')
M('copy-nocopy', ['C19', 'C14', 'C08'], LP,
  "        # Copy mechanistic model\n        mechanistic_model = mechanistic_model.copy()\n\n        # Set outputs\n        if outputs is not None:\n            mechanistic_model.set_outputs(outputs)\n\n        n_outputs = mechanistic_model.n_outputs()\n        if len(error_model)",
  "        # Set outputs\n        if outputs is not None:\n            mechanistic_model.set_outputs(outputs)\n\n        n_outputs = mechanistic_model.n_outputs()\n        if len(error_model)",
  'R19.3')
M('sw-evalS1', ['C03', 'C01', 'C19'], LP,
  "        if not self._mechanistic_model.has_sensitivities():\n            self._mechanistic_model.enable_sensitivities(True)\n\n        # Solve the mechanistic model\n        try:\n            outputs, senss",
  "        # Solve the mechanistic model\n        try:\n            outputs, senss",
  'R03.5')
M('pure-write', ['C19'], EM,
  "        parameters = np.asarray(parameters)\n        model = np.asarray(model_output)\n        obs = np.asarray(observations)\n        n_observations = len(observations)",
  "        parameters = np.asarray(parameters)\n        parameters[parameters < 0] = 0\n        model = np.asarray(model_output)\n        obs = np.asarray(observations)\n        n_observations = len(observations)",
  'R19.2')
M('pure-field', ['C19'], LP,
  "        # Compute log-likelihood score\n        score = 0\n        start = 0\n        for output_id, error_model in enumerate(self._error_models):\n            # Get relevant mechanistic model outputs and parameters\n            output = outputs[output_id, self._obs_masks[output_id]]\n            end = start + self._n_error_params[output_id]\n\n            # Compute log-likelihood score for this output\n            score +=",
  "        # Compute log-likelihood score\n        score = 0\n        start = 0\n        self._last_outputs = outputs\n        for output_id, error_model in enumerate(self._error_models):\n            # Get relevant mechanistic model outputs and parameters\n            output = outputs[output_id, self._obs_masks[output_id]]\n            end = start + self._n_error_params[output_id]\n\n            # Compute log-likelihood score for this output\n            score +=",
  'R19.1')

# =============================================================================
# reduced wrappers (C08)
# =============================================================================
M('red-noscatter', ['C08', 'C06'], EM,
  "        if self._fixed_params_mask is not None:\n            self._fixed_params_values[~self._fixed_params_mask] = parameters\n            parameters = self._fixed_params_values\n\n        # Sample from error model",
  "        # Sample from error model", 'R08.1')
M('red-filter', ['C08'], PM,
  "            return score, dpsi, dtheta[~self._fixed_params_mask]",
  "            return score, dpsi, dtheta[self._fixed_params_mask]", 'R08.2')
M('red-release', ['C08'], EM,
  "            self._fixed_params_mask[index] = value is not None",
  "            self._fixed_params_mask[index] = True", 'R08.3')
M('red-names', ['C08', 'C17'], MM,
  "            names = names[~self._fixed_params_mask]\n            names = list(names)\n\n        return copy.copy(names)\n\n    def set_dosing_regimen",
  "            names = names[self._fixed_params_mask]\n            names = list(names)\n\n        return copy.copy(names)\n\n    def set_dosing_regimen",
  'R08.4')
M('red-refresh', ['C08', 'C17', 'C01'], LP,
  "        self._mechanistic_model = mechanistic_model\n        self._error_models = error_models\n\n        # Update names and number of parameters\n        self._set_number_and_parameter_names()\n\n    def get_id(self, *args, **kwargs):",
  "        self._mechanistic_model = mechanistic_model\n        self._error_models = error_models\n\n    def get_id(self, *args, **kwargs):",
  'R08.5')
M('red-sens', ['C08', 'C03', 'C09', 'C11', 'C17'], MM,
  "        # Remove sensitivities for fixed parameters\n        if self.has_sensitivities() is True:\n            self.enable_sensitivities(True)",
  "        # Remove sensitivities for fixed parameters\n        if self.has_sensitivities() is True and \\\n                self._fixed_params_mask is not None:\n            self.enable_sensitivities(True)",
  'R08.7')


# =============================================================================
# layout / covariates (C07, C02, C03, C17, C13)
# =============================================================================
M('lay-cov-reshape', ['C07', 'C02', 'C03'], CM,
  "            parameters = parameters.reshape(self._n_selected, self._n_cov)\n        parameters = parameters.T\n\n        # Compute population parameters",
  "            parameters = parameters.reshape(self._n_cov, self._n_selected).T\n        parameters = parameters.T\n\n        # Compute population parameters",
  'R07.1')
M('lay-cov-names', ['C07', 'C17'], CM,
  "            for id_p in range(self._n_selected):\n                names += ['Param. %d' % (id_p + 1)] * self._n_cov",
  "            for id_c in range(self._n_cov):\n                names += ['Param. %d' % (id_p + 1) for id_p in range(self._n_selected)]",
  'R07.1')
M('lay-cov-raw', ['C07'], PM,
  "        pidx, didx = self._covariate_model.get_set_population_parameters()\n        names = names.reshape(n_pop, self._n_dim)[pidx, didx]",
  "        names = names.reshape(n_pop, self._n_dim)[indices[:, 0], indices[:, 1]]",
  'R07.3')
M('lay-cov-member', ['C07'], CM,
  "            idx = [int(idx[0]), int(idx[1])]\n            if idx not in unique:\n                unique.append(idx)",
  "            if idx not in unique:\n                unique.append([int(idx[0]), int(idx[1])])",
  'R07.4')
M('lay-dtheta', ['C05', 'C17', 'C03'], PM,
  "        dtheta = np.empty(shape=(n_ids, 2, n_dim))\n        dtheta[:, 0] = dmus\n        dtheta[:, 1] = dstd\n\n        return dpsi, dtheta\n\n    def compute_individual_parameters(",
  "        dtheta = np.empty(shape=(n_ids, 3, n_dim))\n        dtheta[:, 0] = dmus\n        dtheta[:, 1] = dstd\n\n        return dpsi, dtheta\n\n    def compute_individual_parameters(",
  'R05.3')
M('lay-names-gauss', ['C05', 'C17'], PM,
  "        self._parameter_names = ['Mean'] * self._n_dim + ['Std.'] * self._n_dim\n\n        self._centered",
  "        self._parameter_names = ['Mean', 'Std.'] * self._n_dim\n\n        self._centered",
  'R05.3')
M('lay-eps-reshape', ['C13', 'C17'], LP,
  "        epsilon = parameters[self._end_bottom:].reshape(\n            self._n_samples, self._n_observables, self._n_times)\n\n        # Compute log-prior contribution to score",
  "        epsilon = parameters[self._end_bottom:].reshape(\n            self._n_samples, self._n_times, self._n_observables)\n\n        # Compute log-prior contribution to score",
  'R13.1')
M('lay-pooled-top', ['C13'], LP,
  "            n_pop = self._population_model.n_parameters()\n            sensitivities[:n_pop] += np.sum(dbottom, axis=0)",
  "            sensitivities[:self._n_top] += np.sum(dbottom, axis=0)",
  'R13.1')
M('noise-sigma', ['C13', 'C03'], LP,
  "                sensitivities[n_pop:self._n_top] += np.sum(\n                    ds_y * epsilon * y, axis=(0, 2))",
  "                sensitivities[n_pop:self._n_top] += np.sum(\n                    ds_y * epsilon, axis=(0, 2))",
  'R13.3')
M('noise-eps-log', ['C13', 'C03'], LP,
  "            sensitivities[self._end_bottom:] += (ds_y * y * sigma).flatten()",
  "            sensitivities[self._end_bottom:] += (ds_y * sigma).flatten()",
  'R13.3')

# =============================================================================
# filters (C12)
# =============================================================================
M('flt-jacobian', ['C12'], PF,
  "np.log(2*np.pi) + np.log(var) + 2 * self._observations",
  "np.log(2*np.pi) + np.log(var) + self._observations", 'R12.1')
M('flt-ddof', ['C12'], PF,
  "        mu = np.mean(simulated_obs, axis=0, keepdims=True)\n        var = np.var(simulated_obs, ddof=1, axis=0, keepdims=True)\n\n        score = self._compute_log_likelihood(mu, var)\n        if np.ma.is_masked(score):\n            return -np.inf\n\n        return score",
  "        mu = np.mean(simulated_obs, axis=0, keepdims=True)\n        var = np.var(simulated_obs, ddof=0, axis=0, keepdims=True)\n\n        score = self._compute_log_likelihood(mu, var)\n        if np.ma.is_masked(score):\n            return -np.inf\n\n        return score",
  'R12.2')
M('flt-bandwidth', ['C12'], PF,
  "        bw_squared = (4 / 3 / n_sim) ** 0.4 * np.var(\n            simulated_obs, ddof=1, axis=0, keepdims=True)\n\n        score = np.sum(logsumexp(\n            - (simulated_obs - self._observations)**2\n            / bw_squared / 2, axis=0\n            ) - np.log(n_sim) - np.log(2 * np.pi) / 2 - np.log(bw_squared) / 2)\n        if np.ma.is_masked(score):",
  "        bw_squared = (4 / 3 / n_sim) ** 0.2 * np.var(\n            simulated_obs, ddof=1, axis=0, keepdims=True)\n\n        score = np.sum(logsumexp(\n            - (simulated_obs - self._observations)**2\n            / bw_squared / 2, axis=0\n            ) - np.log(n_sim) - np.log(2 * np.pi) / 2 - np.log(bw_squared) / 2)\n        if np.ma.is_masked(score):",
  'R12.1')
M('flt-grad', ['C12', 'C03'], PF,
  "                axis=0) * (simulated_obs - mu) / (n_sim - 1)",
  "                axis=0) * (simulated_obs - mu) / n_sim", 'R12.3')
M('flt-perm', ['C12', 'C13'], PF,
  "            simulated_obs = simulated_obs[:, :, self._time_filter_order]\n\n        # Compute score\n        score = 0\n        sensitivities",
  "            simulated_obs = simulated_obs[:, :, self._time_order]\n\n        # Compute score\n        score = 0\n        sensitivities",
  'R12.4')
M('flt-cache', ['C12'], PF,
  "    def __init__(self, observations):\n        super().__init__(observations)\n\n    def _compute_log_likelihood(self, mu, var):",
  "    def __init__(self, observations):\n        super().__init__(observations)\n        self._n_valid = np.ma.count(self._observations, axis=0)\n\n    def _compute_log_likelihood(self, mu, var):",
  'R12.5')

# =============================================================================
# SBML / dosing (C09, C10)
# =============================================================================
M('sb-order', ['C09'], MM,
  "        self._parameter_names = self._state_names + self._const_names",
  "        self._parameter_names = self._const_names + self._state_names",
  'R09.1')
M('sb-perm', ['C09'], MM,
  "        self._original_order = np.argsort(order_after_sort)",
  "        self._original_order = order_after_sort", 'R09.2')
M('sb-maps', ['C09'], MM,
  "                self._parameter_name_map[myokit_name] = str(new_name)\n            except KeyError:",
  "                self._parameter_name_map = dict(self._parameter_name_map)\n                self._parameter_name_map[myokit_name] = str(new_name)\n            except KeyError:",
  'R09.4')
M('ds-rate', ['C10'], MM, "        dose_rate = dose / duration\n",
  "        dose_rate = dose\n", 'R10.1')
M('ds-depot', ['C10'], MM,
  "                myokit.PrefixMinus(myokit.Name(absorption_rate)),\n                myokit.Name(dose_drug_amount)",
  "                myokit.Name(absorption_rate),\n                myokit.Name(dose_drug_amount)",
  'R10.2')
M('ds-amount', ['C10'], PR,
  "            dose_amount = dose_rate * dose_duration",
  "            dose_amount = dose_rate", 'R10.5')

# =============================================================================
# controller / predictive / inference / plots (C14, C15, C18, C20)
# =============================================================================
M('pb-pairing', ['C14'], PB,
  "            mask = temp_df[self._time_key].notnull()\n            temp_df = temp_df[mask]\n",
  "", 'R14.1')
M('pb-cov-id', ['C14'], PB,
  "                mask = temp[self._id_key] == _id\n                covariates[idn, idc] = \\\n                    temp.loc[mask, self._value_key].dropna().values",
  "                mask = temp[self._id_key] == self._ids[idc]\n                covariates[idn, idc] = \\\n                    temp.loc[mask, self._value_key].dropna().values",
  'R14.2')
M('pb-dose-time', ['C14', 'C10'], PB,
  "                time = row[self._time_key]\n", "                time = row[duration_key]\n",
  'R14.3')
M('pb-regimen-order', ['C14', 'C10'], PB,
  "            if self._dosing_regimens:\n                self._mechanistic_model.set_dosing_regimen(\n                    self._dosing_regimens[individual])\n\n            log_likelihood = self._create_log_likelihood(individual)",
  "            log_likelihood = self._create_log_likelihood(individual)\n            if self._dosing_regimens:\n                self._mechanistic_model.set_dosing_regimen(\n                    self._dosing_regimens[individual])\n",
  'R14.4')
M('pr-times', ['C15'], PR,
  "        times = np.sort(times)\n        for patient_id, patient in enumerate(patients):\n            measurements[..., patient_id] = self._predictive_model.sample(\n                parameters=patient, times=times, seed=seed, return_df=False",
  "        sorted_times = np.sort(times)\n        for patient_id, patient in enumerate(patients):\n            measurements[..., patient_id] = self._predictive_model.sample(\n                parameters=patient, times=sorted_times, seed=seed, return_df=False",
  'R15.3')
M('pr-labels', ['C15'], PR,
  "            times[np.newaxis, :, np.newaxis],\n            shape=(n_outputs, n_times, n_samples)).flatten()",
  "            times[np.newaxis, np.newaxis, :],\n            shape=(n_outputs, n_samples, n_times)).flatten()",
  'R15.4')
M('inf-init-row', ['C18'], LP,
  "                parameters=initial_params[sample_id, n_bottom:],\n                n_samples=n_ids, seed=rng, covariates=covariates))",
  "                parameters=initial_params[0, n_bottom:],\n                n_samples=n_ids, seed=rng, covariates=covariates))",
  'R18.1')
M('inf-ids-sorted', ['C18'], INF,
  "        ids = np.array(ids) if isinstance(ids, list) else ids",
  "        ids = np.array(sorted(ids)) if isinstance(ids, list) else ids",
  'R18.2')
M('inf-map', ['C18'], PR,
  "        model_names = self._predictive_model.get_parameter_names()\n        for param_id, name in enumerate(model_names):\n            try:\n                model_names[param_id] = param_map[name]\n            except KeyError:\n                # The name is not mapped\n                pass",
  "        model_names = self._predictive_model.get_parameter_names()\n        for name, mapped in param_map.items():\n            if name in model_names:\n                model_names[model_names.index(name)] = mapped",
  'R18.3')
M('pl-rows', ['C20'], TS,
  "            mask = data[id_key] == _id\n            times = data[time_key][mask]\n            measurements = data[value_key][mask]\n            color = colors[index % n_colors]\n\n            # Create Scatter plot\n            self._add_data_trace(_id, times, measurements, color)\n\n    def add_simulation",
  "            mask = data[id_key] == _id\n            times = data[time_key]\n            measurements = data[value_key][mask]\n            color = colors[index % n_colors]\n\n            # Create Scatter plot\n            self._add_data_trace(_id, times, measurements, color)\n\n    def add_simulation",
  'R20.1')
M('pl-write', ['C20', 'C19'], TS,
  "        # Get dose information\n        mask = data[dose_key].notnull()",
  "        # Get dose information\n        data[dose_duration_key] = data[dose_duration_key].fillna(0.01)\n        mask = data[dose_key].notnull()",
  'R20.2')
M('pl-band', ['C20'], TS,
  "            values = np.hstack([upper, lower[::-1]])\n\n            # Add trace\n            self._fig.add_trace(go.Scatter(\n                x=times,\n                y=values,\n                line=dict(width=1, color=colors[trace_id]),\n                fill='toself',\n                legendgroup='Model prediction',",
  "            values = np.hstack([upper, lower])\n\n            # Add trace\n            self._fig.add_trace(go.Scatter(\n                x=times,\n                y=values,\n                line=dict(width=1, color=colors[trace_id]),\n                fill='toself',\n                legendgroup='Model prediction',",
  'R20.3')

# =============================================================================
# rules whose expected count on a healthy tree is zero (round-4 additions)
# =============================================================================
M('atomic-raise-late', ['C07', 'C17'], PM,
  "        if out_of_bounds:\n            raise IndexError('The provided indices are out of bounds.')\n        self._covariate_model.set_population_parameters(indices)",
  "        self._covariate_model.set_population_parameters(indices)\n        if out_of_bounds:\n            raise IndexError('The provided indices are out of bounds.')",
  'R11.9')
M('shortcut-administration', ['C11', 'C17'], MM,
  "        # If administration is indirect, add a dosing compartment and update",
  "        if self._administration is not None and \\\n                self._administration['compartment'] == compartment:\n            return None\n\n        # If administration is indirect, add a dosing compartment and update",
  'R11.10')
M('buffer-returned', ['C19'], PM,
  "        dscore = np.empty(shape=self._n_bottom + self._n_top)",
  "        self._buffer = np.empty(shape=self._n_bottom + self._n_top)\n        dscore = self._buffer",
  'R19.4')
M('helper-write-through', ['C19', 'C04'], EM,
  "        dpsi = \\\n            np.sum(\n                error / sigma_tot**2 * model_sensitivities, axis=0) \\\n            - sigma_rel * np.sum(model_sensitivities / sigma_tot, axis=0) \\",
  "        model_sensitivities /= 1.0\n        dpsi = \\\n            np.sum(\n                error / sigma_tot**2 * model_sensitivities, axis=0) \\\n            - sigma_rel * np.sum(model_sensitivities / sigma_tot, axis=0) \\",
  'R19.2')
M('lint-round', ['C01'], LP,
  "        unique_times = sorted(unique_times)",
  "        unique_times = sorted(np.round(unique_times, 6))",
  'R00')
M('lint-like-dtype', ['C12', 'C13'], PF,
  "        sensitivities = np.zeros(shape=simulated_obs.shape)",
  "        sensitivities = np.zeros_like(simulated_obs)",
  'R00')
M('lint-choice', ['C06'], PM,
  "rng.choice(ids, size=n_samples, replace=True)",
  "rng.choice(ids, size=n_samples, replace=False)",
  'R00')
M('rng-copy', ['C16'], EM,
  "        rng = np.random.default_rng(seed=seed)\n        samples = rng.normal(loc=0, scale=sigma, size=sample_shape)",
  "        rng = np.random.default_rng(seed=copy.deepcopy(seed))\n        samples = rng.normal(loc=0, scale=sigma, size=sample_shape)",
  'R16.2')
M('fix-get-none', ['C08'], EM,
  "            try:\n                value = name_value_dict[name]\n            except KeyError:\n                # KeyError indicates that parameter name is not being fixed\n                continue\n",
  "            value = name_value_dict.get(name)\n",
  'R08.3')
M('fix-truthy', ['C08'], MM,
  "            self._fixed_params_mask[index] = value is not None",
  "            self._fixed_params_mask[index] = bool(value)",
  'R08.3')
M('neg-output-abs', ['C04', 'C03'], EM,
  "        # Compute total standard deviation\n        sigma_tot = sigma_rel * model_output\n\n        # Compute log-likelihood\n        n_obs = len(model_output)",
  "        # Compute total standard deviation\n        sigma_tot = sigma_rel * np.abs(model_output)\n\n        # Compute log-likelihood\n        n_obs = len(model_output)",
  'R04.2')
M('shape-reduce', ['C05'], PM,
  "        if reduce or flattened:\n            # Sum contributions across individuals and flatten",
  "        if flattened:\n            # Sum contributions across individuals and flatten",
  'R05.8')
M('guard-grad-length', ['C17'], LP,
  "            return score, np.full(shape=len(parameters), fill_value=np.inf)",
  "            return score, np.full(shape=len(sens), fill_value=np.inf)",
  'R17.5')
M('selector-conditional', ['C01'], LP,
  "            output = outputs[output_id, self._obs_masks[output_id]]\n            end = start + self._n_error_params[output_id]\n\n            # Compute log-likelihood score for this output\n            score +=",
  "            output = outputs[output_id]\n            if len(output) > self._n_obs[output_id]:\n                output = output[self._obs_masks[output_id]]\n            end = start + self._n_error_params[output_id]\n\n            # Compute log-likelihood score for this output\n            score +=",
  'R01.5')
M('ids-sorted', ['C14'], PB,
  "        if self._population_model is not None:\n            ids = self._ids\n",
  "        if self._population_model is not None:\n            ids = sorted(self._ids)\n",
  'R14.6')
M('draws-raw', ['C15'], PR,
  "            n_draws = len(self._posterior.sel(\n                    individual=individual).dropna(dim='draw').draw)",
  "            n_draws = len(self._posterior.sel(\n                    individual=individual).draw)",
  'R15.5')
M('sorted-key', ['C09'], MM,
  "        self._state_names = sorted(names)",
  "        self._state_names = sorted(names, key=str.lower)",
  'R09.2')
M('hier-sorted-lls', ['C02'], LP,
  "        n_parameters = population_model.n_dim()\n        for log_likelihood in log_likelihoods:",
  "        log_likelihoods = sorted(log_likelihoods, key=id)\n        n_parameters = population_model.n_dim()\n        for log_likelihood in log_likelihoods:",
  'R02.9')
# --- rules of the continuation session ---------------------------------------
M('stale-config-read', ['C02'], LP,
  '        self._n_dim = self._population_model.n_dim()\n\n        # Get number of parameters as well as pooled or heterogen. dimensions\n        self._population_model.set_n_ids(self._n_ids)\n        self._n_parameters = np.sum(\n            self._population_model.n_hierarchical_parameters(self._n_ids))\n        self._n_bottom = \\\n            self._n_parameters - self._population_model.n_parameters()',
  '        self._n_dim = self._population_model.n_dim()\n        n_top = self._population_model.n_parameters()\n\n        # Get number of parameters as well as pooled or heterogen. dimensions\n        self._population_model.set_n_ids(self._n_ids)\n        self._n_parameters = np.sum(\n            self._population_model.n_hierarchical_parameters(self._n_ids))\n        self._n_bottom = self._n_parameters - n_top',
  'R00')
M('refresh-own-view', ['C08'], MM,
  "            self._parameter_names = self._mechanistic_model.parameters()",
  "            self._parameter_names = self.parameters()",
  'R00')
M('prior-gradient-dropped', ['C03'], LP,
  "        score, sensitivities = self._log_prior.evaluateS1(parameters)\n        if np.isinf(score):\n            return score, sensitivities\n\n        # Compute log-likelihood and sensitivities\n        l, s = self._log_likelihood.evaluateS1(parameters)\n\n        # Aggregate scores\n        score += l\n        sensitivities += s\n",
  "        score = self._log_prior(parameters)\n        if np.isinf(score):\n            return score, np.full(len(parameters), np.inf)\n\n        # Compute log-likelihood and sensitivities\n        l, sensitivities = self._log_likelihood.evaluateS1(parameters)\n\n        # Aggregate scores\n        score += l\n",
  'R00')
M('argsort-of-sorted', ['C13'], LP,
  "        self._filter.sort_times(np.argsort(times))\n        self._times = np.sort(times)",
  "        self._times = np.sort(times)\n        self._filter.sort_times(np.argsort(self._times))",
  'R00')
M('seed-truthiness', ['C16'], LP,
  "        np.random.seed(seed)\n        return self._log_prior.sample(n_samples)",
  "        if seed:\n            np.random.seed(seed)\n        return self._log_prior.sample(n_samples)",
  'R00')
M('element-result-at-cursor', ['C03'], LP,
  "            sensitivities[n_mech+start:n_mech+end] += s[n_mech:]",
  "            sensitivities[n_mech+start:n_mech+end] += s[n_mech+start:]",
  'R05.4')
M('weakened-shortcut', ['C08'], EM,
  "        if self._fixed_params_mask is None:\n            return score, sensitivities",
  "        if (self._fixed_params_mask is None) or np.isinf(score):\n            return score, sensitivities",
  'R08.2')
M('set-data-elif', ['C14', 'C17'], PB,
  "                self._population_model.get_population_model()\n        if self._population_model is not None:\n            self._population_model.set_n_ids(len(self._ids))",
  "                self._population_model.get_population_model()\n        elif self._population_model is not None:\n            self._population_model.set_n_ids(len(self._ids))",
  'R14.7')
M('stored-seed-unused', ['C16'], INF,
  "        self._initial_params = self._log_posterior.sample_initial_parameters(\n            n_samples=self._n_runs, seed=self._seed)\n\n    def set_parallel_evaluation",
  "        self._initial_params = self._log_posterior.sample_initial_parameters(\n            n_samples=self._n_runs)\n\n    def set_parallel_evaluation",
  'R16.7')
M('seed-int-conversion', ['C16'], PM,
  "        # Sample from population model\n        sample = self._population_model.sample(",
  "        # Sample from population model\n        if seed is not None:\n            seed = int(seed)\n        sample = self._population_model.sample(",
  'R16.3')
M('bottom-count-no-dim', ['C05', 'C17'], PM,
  "        n_ids = int(n_ids)\n\n        return (n_ids * self._n_dim, self._n_parameters)",
  "        return (int(n_ids), self._n_parameters)",
  'R17.4', 2)
M('drop-duplicates', ['C14'], PB,
  "            [self._time_key, self._obs_key, self._value_key]]\n        for output in self._mechanistic_model.outputs():",
  "            [self._time_key, self._obs_key, self._value_key]\n        ].drop_duplicates()\n        for output in self._mechanistic_model.outputs():",
  'R14.1')
M('field-alias-sort', ['C19'], LP,
  "        self._times = np.sort(times)\n\n        # Check mechanistic model",
  "        self._times = np.asarray(times)\n        self._times.sort()\n\n        # Check mechanistic model",
  'R19.2')
M('unwrap-then-query', ['C13'], LP,
  "        return self._population_model.get_special_dims()",
  "        population_model = self._population_model\n        if isinstance(population_model, chi.ReducedPopulationModel):\n            population_model = population_model.get_population_model()\n        return population_model.get_special_dims()",
  'R00')
