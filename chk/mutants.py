"""In-memory mutants for the rule self-test (thorough tier)."""
MUTANTS = []


def selftest(pid, ctx):
    return dict(mutants=0, reported=0, skipped=0, missed=[])


def main(pid=None):
    return 0
