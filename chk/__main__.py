import sys
from .run import main
try:
    sys.exit(main())
except SystemExit:
    raise
except BaseException as e:   # never a traceback with exit 1
    print('ANALYSIS-ERROR internal %s: %s' % (type(e).__name__, e))
    sys.exit(2)
