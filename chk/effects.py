"""Engine D: field read/write effects of methods, resolved per receiver class.

Fields are named by their attribute text ('self._n_ids').  Writes include
assignment, augmented assignment, subscript stores and calls of mutating
methods on a field.  Self-calls are followed through the MRO of the receiver
class (depth bound 4)."""
import ast

from .loader import U

MUTATING = {'append', 'extend', 'insert', 'pop', 'remove', 'sort', 'reverse',
            'clear', 'update', 'fill', 'setdefault', 'popitem', 'setflags',
            'resize', 'itemset', 'put', 'partition', 'setfield'}


def _self_field(node):
    """self.f / self.f[...] / self.f.g -> 'self.f' (first attribute)"""
    cur = node
    while isinstance(cur, (ast.Subscript, ast.Attribute)):
        if isinstance(cur, ast.Attribute) and isinstance(
                cur.value, ast.Name) and cur.value.id == 'self':
            return 'self.' + cur.attr
        cur = cur.value
    return None


def direct(fn):
    """-> (writes, reads, self_calls, field_calls)
    self_calls: list of (method name, call node, via_super class or None)
    field_calls: list of ('self.f', method name, call node)"""
    writes, reads = set(), set()
    self_calls, field_calls = [], []
    for n in ast.walk(fn):
        if isinstance(n, (ast.Assign, ast.AugAssign, ast.AnnAssign)):
            tgts = n.targets if isinstance(n, ast.Assign) else [n.target]
            for t in tgts:
                for x in ([t] if not isinstance(t, (ast.Tuple, ast.List))
                          else t.elts):
                    f = _self_field(x)
                    if f:
                        writes.add(f)
        elif isinstance(n, ast.Delete):
            for t in n.targets:
                f = _self_field(t)
                if f:
                    writes.add(f)
        elif isinstance(n, ast.Call) and isinstance(n.func, ast.Attribute):
            recv = n.func.value
            if isinstance(recv, ast.Name) and recv.id == 'self':
                self_calls.append((n.func.attr, n, None))
            elif isinstance(recv, ast.Call) and isinstance(
                    recv.func, ast.Name) and recv.func.id == 'super':
                after = U(recv.args[0]) if recv.args else ''
                self_calls.append((n.func.attr, n, after or '<implicit>'))
            else:
                f = _self_field(recv)
                if f:
                    field_calls.append((f, n.func.attr, n))
                    if n.func.attr in MUTATING:
                        writes.add(f)
        if isinstance(n, ast.Attribute) and isinstance(n.ctx, ast.Load) \
                and isinstance(n.value, ast.Name) and n.value.id == 'self':
            reads.add('self.' + n.attr)
    return writes, reads, self_calls, field_calls


class Effects:
    def __init__(self, repo):
        self.repo = repo
        self._cache = {}

    def summary(self, recv_cls, method, after=None, depth=0, _stack=()):
        """Transitive (writes, reads, field_calls) of recv_cls.method with
        self-calls resolved for receiver class recv_cls."""
        key = (recv_cls, method, after)
        if key in self._cache:
            return self._cache[key]
        if key in _stack or depth > 4:
            return set(), set(), []
        k, fn = self.repo.resolve(recv_cls, method, after=after)
        if fn is None:
            return set(), set(), []
        w, r, sc, fc = direct(fn)
        w, r, fc = set(w), set(r), list(fc)
        for name, call, via in sc:
            if via is None:
                sub = self.summary(recv_cls, name, None, depth + 1,
                                   _stack + (key,))
            else:
                sub = self.summary(recv_cls, name, k, depth + 1,
                                   _stack + (key,))
            w |= sub[0]
            r |= sub[1]
            fc += sub[2]
        # methods read through properties are not used in chi
        out = (w, r - {'self.' + method}, fc)
        if depth == 0:
            self._cache[key] = out
        return out
