"""Regenerate /verif/MANIFEST.json from the property table (development aid;
the manifest itself is committed)."""
import json
import os

from . import props
from .report import VERIF

BASELINE = ('cd /repo && /venv/bin/python -m pytest -ra -q -p no:cacheprovider'
            ' --timeout=900 --continue-on-collection-errors')


def main():
    titles = {}
    with open(os.path.join(VERIF, 'properties.jsonl')) as f:
        for line in f:
            if line.strip():
                p = json.loads(line)
                titles[p['id']] = p['title']
    checks = []
    na = []
    for pid in sorted(titles):
        spec = props.PROPS.get(pid)
        if spec is None or not spec['quick']:
            na.append(dict(property_id=pid, reason=props.NOT_CLAIMED.get(
                pid, 'no static rule armed for this property yet')))
            continue
        checks.append(dict(
            property_id=pid,
            quick_cmd='python3-vt -m chk %s --tier quick' % pid,
            thorough_cmd='python3-vt -m chk %s --tier thorough' % pid,
            evidence_file='/verif/evidence/%s.json' % pid,
            replay_cmd_template='python3-vt -m chk --replay {path}',
            engine='chk',
            level_claimed=dict(
                category='other',
                text=spec['level_text'] or (
                    'Static decision of the structural clauses of the '
                    'property (see DESIGN.md): every rule instance found in '
                    'the current source is an obligation that is discharged '
                    'or reported with file:line; behaviour that depends on '
                    'run-time values is not decided.'),
                design_ref='DESIGN.md §4 ' + pid),
            level_note='Trusted: Python/numpy/scipy/pandas/myokit semantics '
                       'of the idioms enumerated in the transfer functions; '
                       'the docstring transcriptions in chk/spec. Not '
                       'decided: ' + '; '.join(spec['undecided'] or ['—']),
            technique=spec['technique'] or 'custom AST / dataflow rules',
        ))
    man = dict(
        version=1,
        setup_cmd='python3-vt -c "import ast, sympy, networkx, jsonschema"',
        hooks=dict(guard='DAVAUG_CHI_VERIF', enable='none needed: the '
                   'checkers parse the sources and never run chi',
                   baseline_off_cmd=BASELINE, source_commits=[],
                   add_only=True),
        engines=[dict(name='chk', path='/verif/chk',
                      serves_properties=[c['property_id'] for c in checks],
                      kind_free_text='static analysis: custom AST rules, '
                      'class-hierarchy analysis, abstract interpretation of '
                      'symbolic shapes/lengths, typestate over statement '
                      'paths, row-filter and RNG provenance, term algebra '
                      '(sympy as rewriting engine) — chi is never imported '
                      'or executed')],
        checks=checks,
        not_applicable=na,
        notes='All checks parse /repo/chi on every run. Exit 0 held / only '
              'known findings; 1 + VIOLATION line; 2 + ANALYSIS-ERROR when '
              'the analysis could not be carried out.',
    )
    with open(os.path.join(VERIF, 'MANIFEST.json'), 'w') as f:
        json.dump(man, f, indent=1)
    try:
        import jsonschema
        with open('/root/.vp/MANIFEST.schema.json') as f:
            jsonschema.validate(man, json.load(f))
        print('MANIFEST.json valid: %d checks, %d not applicable' % (
            len(checks), len(na)))
    except ImportError:
        pass


if __name__ == '__main__':
    main()
