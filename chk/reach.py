"""Code reachable from a property's observation points (engine A).

A property is observed through a handful of public methods (its
`anchors.observe_at`).  Whatever those methods execute can change what the
user observes; a rule finding located in code that none of them can reach
cannot break the property.  The call graph is resolved with the class
hierarchy and the recovered receiver types:

  self.m(..)            every definition of m an instance of the defining class
                        or of one of its subclasses resolves to
  super().m(..)         the next definition after the defining class
  X.m(..)  (X typed T)  m resolved for every concrete candidate of T
  K(..) / chi.K(..)     K.__init__
  f(..)                 module-level function f of the same file
  x.m(..)  (x untyped)  every definition of m in the same family of files
                        (library code only; plots are a separate family)

Nodes are (defining class | '', function name).
"""
import ast

from .loader import U
from .types import Types

PLOTS = ('chi/plots',)
MODULES = {'np', 'numpy', 'pd', 'pandas', 'myokit', 'pints', 'xr', 'xarray',
           'go', 'copy', 'scipy', 'stats', 'math', 'warnings', 'os', 'sbml',
           'colors', 'plotly', 'az', 'tqdm', 'special', 'truncnorm', 'norm'}
BUILTINS = {'len', 'range', 'int', 'float', 'str', 'list', 'dict', 'set',
            'tuple', 'enumerate', 'zip', 'sorted', 'isinstance', 'print',
            'super', 'min', 'max', 'sum', 'abs', 'any', 'all', 'bool',
            'type', 'getattr', 'hasattr', 'iter', 'next', 'map', 'filter',
            'reversed', 'round', 'repr', 'format', 'callable', 'id',
            'ValueError', 'TypeError', 'KeyError', 'IndexError',
            'NotImplementedError', 'AttributeError', 'RuntimeError',
            'Warning', 'Exception', 'tqdm', 'softmax', 'logsumexp'}
# fields that hold myokit / pints / plotly objects, never chi objects
EXTERNAL_FIELDS = {'_simulator', '_model', '_vanilla_model', '_log_prior',
                   '_fig', '_figs', '_optimiser', '_sampler',
                   '_initial_params', '_transform'}


# evaluation methods use fields as scratch space; they do not configure
EVALS = {'__call__', 'evaluateS1', 'compute_log_likelihood',
         'compute_pointwise_ll', 'compute_sensitivities',
         'compute_individual_parameters', 'compute_population_parameters',
         'sample', 'simulate', 'get_mean_and_std'}


def _family(rel):
    return 'plots' if rel.startswith(PLOTS) else 'lib'


class CallGraph:
    def __init__(self, repo):
        self.repo = repo
        self.T = Types(repo)
        self.defs = {}          # (cls, name) -> (rel, fn)
        self.by_name = {}       # method name -> [(cls, name)]
        for rel, cls, fn in repo.all_functions():
            key = (cls or '', fn.name)
            self.defs.setdefault(key, (rel, fn))
            self.by_name.setdefault(fn.name, []).append(key)
        self._succ = {}
        self._loc = {}
        self._weak = set()      # edges resolved by method name only

    def _resolve_all(self, cls, m):
        """Definitions of m that a receiver of static class `cls` (or a
        subclass) can resolve to."""
        out = set()
        for k in [cls] + self.repo.subclasses(cls, strict=True):
            d, fn = self.repo.resolve(k, m)
            if fn is not None:
                out.add((d, m))
        return out

    def succ(self, node):
        if node in self._succ:
            return self._succ[node]
        out = set()
        self._succ[node] = out
        if node not in self.defs:
            return out
        rel, fn = self.defs[node]
        cls = node[0]
        repo = self.repo
        for n in ast.walk(fn):
            if not isinstance(n, ast.Call):
                continue
            f = n.func
            if isinstance(f, ast.Name):
                if repo.has_cls(f.id):
                    out |= self._resolve_all(f.id, '__init__')
                elif ('', f.id) in self.defs and \
                        self.defs[('', f.id)][0] == rel:
                    out.add(('', f.id))
                elif f.id not in BUILTINS and f.id in self._locals(fn):
                    # calling a local object: its __call__
                    got = self._object_call(f, cls, fn, rel)
                    out |= got
                continue
            if not isinstance(f, ast.Attribute):
                continue
            recv = f.value
            m = f.attr
            # chi.K(...)
            if isinstance(recv, ast.Name) and recv.id in ('chi', 'plots') \
                    and repo.has_cls(m):
                out |= self._resolve_all(m, '__init__')
                continue
            if isinstance(recv, ast.Attribute) and repo.has_cls(m) \
                    and U(recv).startswith('chi'):
                out |= self._resolve_all(m, '__init__')
                continue
            if isinstance(recv, ast.Name) and recv.id == 'self' and cls:
                got = self._resolve_all(cls, m)
                if not got:
                    # calling an object stored in a field: its __call__
                    got = self._object_call(f, cls, fn, rel)
                out |= got
                continue
            if isinstance(recv, ast.Name) and recv.id in ('cls',) and cls:
                out |= self._resolve_all(cls, m)
                continue
            if isinstance(recv, ast.Name) and repo.has_cls(recv.id):
                out |= self._resolve_all(recv.id, m)
                continue
            if isinstance(recv, ast.Call) and isinstance(
                    recv.func, ast.Name) and recv.func.id == 'super' and cls:
                d, fn2 = repo.resolve(cls, m, after=cls)
                if fn2 is not None:
                    out.add((d, m))
                continue
            t = self.T.type_of(recv, cls, fn) if cls else None
            if t is not None:
                tt = t[1] if t[0] == 'list' else t
                if tt is not None:
                    for K in self.T.candidates(tt):
                        d, fn2 = repo.resolve(K, m)
                        if fn2 is not None:
                            out.add((d, m))
                    continue
            # untyped receiver: by name within the family, unless the
            # receiver is a module or a field holding a foreign object
            root = recv
            while isinstance(root, (ast.Attribute, ast.Subscript, ast.Call)):
                root = root.value if not isinstance(root, ast.Call) \
                    else root.func
            if isinstance(root, ast.Name) and root.id in MODULES:
                continue
            if isinstance(recv, ast.Attribute) and recv.attr in \
                    EXTERNAL_FIELDS:
                continue
            fam = _family(rel)
            for key in self.by_name.get(m, ()):
                if key[0] and _family(self.defs[key][0]) == fam:
                    out.add(key)
                    self._weak.add((node, key))
        return out

    def _locals(self, fn):
        key = id(fn)
        if key not in self._loc:
            names = {a.arg for a in fn.args.args + fn.args.kwonlyargs}
            for x in ast.walk(fn):
                if isinstance(x, ast.Name) and isinstance(x.ctx, ast.Store):
                    names.add(x.id)
            self._loc[key] = names
        return self._loc[key]

    def _object_call(self, expr, cls, fn, rel):
        out = set()
        t = self.T.type_of(expr, cls, fn) if cls else None
        if t is not None:
            tt = t[1] if t[0] == 'list' else t
            if tt is not None:
                for K in self.T.candidates(tt):
                    d, fn2 = self.repo.resolve(K, '__call__')
                    if fn2 is not None:
                        out.add((d, '__call__'))
                return out
        if isinstance(expr, ast.Attribute) and expr.attr in EXTERNAL_FIELDS:
            return out
        fam = _family(rel)
        node = (cls or '', fn.name)
        for key in self.by_name.get('__call__', ()):
            if key[0] and _family(self.defs[key][0]) == fam:
                out.add(key)
                self._weak.add((node, key))
        return out

    def reachable(self, entries, strong=False):
        """strong: follow only edges whose callee was resolved through the
        class hierarchy / recovered types (not by bare method name)."""
        seen = set()
        work = [e for e in entries if e in self.defs]
        while work:
            n = work.pop()
            if n in seen:
                continue
            seen.add(n)
            for s in self.succ(n):
                if strong and (n, s) in self._weak:
                    continue
                if s not in seen:
                    work.append(s)
        return seen

    def with_state_writers(self, reach, strong=None):
        """Close a reachable set under "configures what is observed": a
        method that writes a field which a reachable method of the same class
        hierarchy reads decides what that method returns (the configuration
        methods set_* / fix_* of the objects an observation point evaluates),
        so it — and what it calls — belongs to the code the property depends
        on.  One round of writers, closed under calls."""
        from .effects import direct
        reads = {}              # defining class -> fields read
        for node in (reach if strong is None else strong):
            if node not in self.defs or not node[0]:
                continue
            w, r, sc, fc = direct(self.defs[node][1])
            reads.setdefault(node[0], set()).update(r)
        extra = set()
        for cls, rd in reads.items():
            family = set(self.repo.mro(cls)) | set(
                self.repo.subclasses(cls, strict=True))
            for (k2, m2), (rel, fn) in self.defs.items():
                if k2 not in family or (k2, m2) in reach or m2 in EVALS:
                    continue
                w, r, sc, fc = direct(fn)
                if w & rd:
                    extra.add((k2, m2))
        if not extra:
            return reach
        return reach | self.reachable(extra)

    def entries(self, spec):
        """spec: list of 'Class.method' | 'Class.*' | 'Class+.method'
        ('+' = the class and all its subclasses) | '.function'."""
        out = set()
        for s in spec:
            if s.startswith('.'):
                out.add(('', s[1:]))
                continue
            c, m = s.split('.', 1)
            if c in ('ALL', 'PLOTS'):
                fam = 'lib' if c == 'ALL' else 'plots'
                for key in self.by_name.get(m, ()):
                    if key[0] and _family(self.defs[key][0]) == fam:
                        out.add(key)
                        # every class that inherits or defines m is
                        # constructed before m can be observed
                        for k2 in [key[0]] + self.repo.subclasses(
                                key[0], strict=True):
                            d, f0 = self.repo.resolve(k2, '__init__')
                            if f0 is not None:
                                out.add((d, '__init__'))
                continue
            sub = c.endswith('+')
            c = c.rstrip('+')
            if not self.repo.has_cls(c):
                continue
            ks = [c] + (self.repo.subclasses(c, strict=True) if sub else [])
            for k in ks:
                if m == '*':
                    for kk in self.repo.mro(k):
                        for name in self.repo.cls(kk).methods:
                            if not name.startswith('_') or name in (
                                    '__init__', '__call__'):
                                d, fn = self.repo.resolve(k, name)
                                if fn is not None:
                                    out.add((d, name))
                else:
                    d, fn = self.repo.resolve(k, m)
                    if fn is not None:
                        out.add((d, m))
                    # constructing the object is part of observing it
                    d, fn = self.repo.resolve(k, '__init__')
                    if fn is not None:
                        out.add((d, '__init__'))
        return out
