"""Sequence provenance: which elements of which source list, in what order.

Abstract value of a python list: a tuple of segments
    Seg(src, lo, hi, tf)   = [tf(x) for x in src[lo:hi]]
with `src` the text of the source expression, lo/hi texts ('0', 'END' or an
expression) and tf a transform label ('id' or the text of the element
expression with the element replaced by `$`).  Understood constructions:

  * slices / names / list(...) / copies of a source list
  * list comprehensions with one generator over a sequence value
  * `a + b`, `acc += b`, `acc.extend(b)`
  * a loop `for i, x in enumerate(S)` / `for x in S` whose body appends one
    element per iteration, possibly under a test on the index
    (`i < A` / `i >= A`, with continue or else) -> two segments
  * a filtering loop `for i, y in enumerate(T): if <cond>: acc.append(L[i])`
    -> the sub-sequence of L in order (Sub(...))

Anything else evaluates to None (unknown).
"""
import ast

from .loader import U

END = 'END'


class Seg:
    def __init__(self, src, lo='0', hi=END, tf='id', sub=None):
        self.src, self.lo, self.hi, self.tf, self.sub = src, lo, hi, tf, sub

    def key(self):
        return (self.src, self.lo, self.hi, self.tf, self.sub)

    def __eq__(self, o):
        return isinstance(o, Seg) and self.key() == o.key()

    def __hash__(self):
        return hash(self.key())

    def __repr__(self):
        s = '%s[%s:%s]' % (self.src, '' if self.lo == '0' else self.lo,
                           '' if self.hi == END else self.hi)
        if self.tf != 'id':
            s = '[%s for $ in %s]' % (self.tf, s)
        if self.sub:
            s += ' filtered by (%s)' % self.sub
        return s


class Alt:
    """The value is one of several sequences (branches that disagree)."""

    def __init__(self, alts):
        self.alts = list(alts)

    def __eq__(self, o):
        return isinstance(o, Alt) and self.alts == o.alts


def _tf_of(elt, var):
    """Transform label of a comprehension / append element."""
    if isinstance(elt, ast.Name) and elt.id == var:
        return 'id'
    names = {n.id for n in ast.walk(elt) if isinstance(n, ast.Name)}
    if var not in names:
        return None

    class R(ast.NodeTransformer):
        def visit_Name(self, n):
            return ast.copy_location(ast.Name(id='$', ctx=n.ctx), n) \
                if n.id == var else n
    import copy
    out = U(R().visit(copy.deepcopy(elt)))
    # one canonical spelling of the length of the element
    for alt in ('$.shape[0]', 'np.shape($)[0]', '$.__len__()'):
        out = out.replace(alt, 'len($)')
    return out


class SeqEval:
    def __init__(self, sources):
        self.sources = set(sources)     # texts of source lists
        self.env = {}

    def ev(self, e):
        s = U(e)
        if s in self.env:
            v = self.env[s]
            return None if isinstance(v, Alt) else v
        if s in self.sources:
            return (Seg(s),)
        if isinstance(e, (ast.List, ast.Tuple)) and not e.elts:
            return ()
        if isinstance(e, ast.Call) and U(e.func) in (
                'list', 'copy.copy', 'copy.deepcopy', 'tuple') and e.args:
            return self.ev(e.args[0])
        if isinstance(e, ast.Subscript) and isinstance(e.slice, ast.Slice) \
                and e.slice.step is None:
            v = self.ev(e.value)
            if v is not None and len(v) == 1 and v[0].lo == '0' \
                    and v[0].hi == END and not v[0].sub:
                lo = U(e.slice.lower) if e.slice.lower is not None else '0'
                hi = U(e.slice.upper) if e.slice.upper is not None else END
                return (Seg(v[0].src, lo, hi, v[0].tf),)
            return None
        if isinstance(e, ast.BinOp) and isinstance(e.op, ast.Add):
            a, b = self.ev(e.left), self.ev(e.right)
            if a is None or b is None:
                return None
            return tuple(a) + tuple(b)
        if isinstance(e, ast.ListComp) and len(e.generators) == 1 \
                and len(e.generators[0].ifs) == 1 and isinstance(
                    e.generators[0].iter, ast.Call) and U(
                    e.generators[0].iter.func) == 'zip' and len(
                    e.generators[0].iter.args) == 2 and isinstance(
                    e.generators[0].target, ast.Tuple) and len(
                    e.generators[0].target.elts) == 2 and all(
                        isinstance(t, ast.Name)
                        for t in e.generators[0].target.elts):
            # [d for d, s in zip(D, S) if cond(s)]: D filtered, order kept
            g = e.generators[0]
            d_, s_ = g.target.elts
            if isinstance(e.elt, ast.Name) and e.elt.id == d_.id and not any(
                    isinstance(x, ast.Name) and x.id == d_.id
                    for x in ast.walk(g.ifs[0])):
                v = self.ev(g.iter.args[0])
                if v is not None:
                    cond = U(g.ifs[0])
                    return tuple(Seg(sg.src, sg.lo, sg.hi, sg.tf,
                                     (sg.sub + ' and ' if sg.sub else '')
                                     + cond) for sg in v)
            return None
        if isinstance(e, ast.ListComp) and len(e.generators) == 1 \
                and not e.generators[0].ifs and isinstance(
                e.generators[0].target, ast.Name):
            g = e.generators[0]
            v = self.ev(g.iter)
            tf = _tf_of(e.elt, g.target.id)
            if v is None or tf is None:
                return None
            if tf == 'id':
                return v
            if all(sg.tf == 'id' for sg in v):
                return tuple(Seg(sg.src, sg.lo, sg.hi, tf, sg.sub)
                             for sg in v)
            return None
        return None

    # -- statements -----------------------------------------------------------
    def run(self, stmts):
        for s in stmts:
            self.stmt(s)

    def stmt(self, s):
        if isinstance(s, ast.Assign) and len(s.targets) == 1 and isinstance(
                s.targets[0], (ast.Name, ast.Attribute)):
            v = self.ev(s.value)
            k = U(s.targets[0])
            if v is not None:
                self.env[k] = v
            else:
                self.env.pop(k, None)
            return
        if isinstance(s, ast.AugAssign) and isinstance(s.op, ast.Add) \
                and isinstance(s.target, (ast.Name, ast.Attribute)):
            k = U(s.target)
            a, b = self.env.get(k), self.ev(s.value)
            if a is not None and b is not None:
                self.env[k] = tuple(a) + tuple(b)
            else:
                self.env.pop(k, None)
            return
        if isinstance(s, ast.Expr) and isinstance(s.value, ast.Call) \
                and isinstance(s.value.func, ast.Attribute) \
                and s.value.func.attr == 'extend' and s.value.args:
            k = U(s.value.func.value)
            a, b = self.env.get(k), self.ev(s.value.args[0])
            if a is not None and b is not None:
                self.env[k] = tuple(a) + tuple(b)
            else:
                self.env.pop(k, None)
            return
        if isinstance(s, ast.For):
            self.loop(s)
            return
        if isinstance(s, ast.If):
            # both arms on copies; keep agreement
            e0 = dict(self.env)
            self.run(s.body)
            e1 = self.env
            self.env = dict(e0)
            self.run(s.orelse)
            e2 = self.env
            new = {}
            for k in set(e1) & set(e2):
                if e1[k] == e2[k]:
                    new[k] = e1[k]
                elif not isinstance(e1[k], Alt) and not isinstance(
                        e2[k], Alt):
                    new[k] = Alt([e1[k], e2[k]])
            self.env = new
            return
        if isinstance(s, (ast.With, ast.Try)):
            self.run(s.body)
            return
        # anything else: names it assigns become unknown
        for x in ast.walk(s):
            if isinstance(x, ast.Name) and isinstance(x.ctx, ast.Store):
                self.env.pop(x.id, None)

    def loop(self, l):
        it = l.iter
        idx = None
        if isinstance(it, ast.Call) and U(it.func) == 'zip' and len(
                it.args) == 2 and not it.keywords and isinstance(
                l.target, ast.Tuple) and len(l.target.elts) == 2 and all(
                    isinstance(t, ast.Name) for t in l.target.elts):
            # `for a, b in zip(X, Y)` is `for i, b in enumerate(Y)` with
            # a = X[i] (both sequences are walked in step)
            import copy
            a_name = l.target.elts[0].id
            X = it.args[0]

            class R(ast.NodeTransformer):
                def visit_Name(self, n):
                    if n.id == a_name and isinstance(n.ctx, ast.Load):
                        return ast.Subscript(
                            value=copy.deepcopy(X),
                            slice=ast.Name(id='__zi', ctx=ast.Load()),
                            ctx=ast.Load())
                    return n
            l2 = copy.deepcopy(l)
            l2.body = [R().visit(b) for b in l2.body]
            l2.iter = ast.Call(func=ast.Name(id='enumerate', ctx=ast.Load()),
                               args=[it.args[1]], keywords=[])
            l2.target = ast.Tuple(elts=[ast.Name(id='__zi', ctx=ast.Store()),
                                        l.target.elts[1]], ctx=ast.Store())
            ast.fix_missing_locations(l2)
            return self.loop(l2)
        if isinstance(it, ast.Call) and U(it.func) == 'enumerate' and it.args \
                and isinstance(l.target, ast.Tuple) and len(
                    l.target.elts) == 2:
            idx = U(l.target.elts[0])
            var = U(l.target.elts[1])
            src_e = it.args[0]
        elif isinstance(l.target, ast.Name):
            var = l.target.id
            src_e = it
        else:
            self._kill(l)
            return
        src = self.ev(src_e)
        # appends per path
        paths = self._paths(l.body, [])
        accs = {}
        for conds, apps in paths:
            for acc, elt in apps:
                accs.setdefault(acc, []).append((conds, elt))
        if not accs:
            self._kill(l)
            return
        for acc, items in accs.items():
            cur = self.env.get(acc)
            per_path = {}
            for conds, apps in paths:
                per_path[tuple(conds)] = [e for a, e in apps if a == acc]
            new = None
            if cur is not None:
                new = self._summarise(per_path, idx, var, src, src_e)
            if new is None:
                self.env.pop(acc, None)
            else:
                self.env[acc] = tuple(cur) + tuple(new)
        # other assigned names die
        for x in ast.walk(l):
            if isinstance(x, ast.Name) and isinstance(x.ctx, ast.Store) \
                    and x.id not in accs:
                self.env.pop(x.id, None)

    def _kill(self, l):
        for x in ast.walk(l):
            if isinstance(x, ast.Name) and isinstance(x.ctx, ast.Store):
                self.env.pop(x.id, None)
            if isinstance(x, ast.Call) and isinstance(
                    x.func, ast.Attribute) and x.func.attr in (
                    'append', 'extend'):
                self.env.pop(U(x.func.value), None)

    def _paths(self, stmts, conds):
        """-> list of (conds, [(acc, elt)]) for paths through one iteration;
        conds: list of (test text, taken)."""
        paths = [(list(conds), [], False)]      # conds, apps, finished
        for s in stmts:
            nxt = []
            for c, apps, fin in paths:
                if fin:
                    nxt.append((c, apps, fin))
                    continue
                if isinstance(s, ast.If):
                    for br, taken in ((s.body, True), (s.orelse, False)):
                        for c2, a2, f2 in self._paths3(
                                br, c + [(s.test, taken)]):
                            nxt.append((c2, apps + a2, f2))
                elif isinstance(s, ast.Continue):
                    nxt.append((c, apps, True))
                elif isinstance(s, ast.Expr) and isinstance(
                        s.value, ast.Call) and isinstance(
                        s.value.func, ast.Attribute) and \
                        s.value.func.attr == 'append' and s.value.args:
                    nxt.append((c, apps + [(U(s.value.func.value),
                                            s.value.args[0])], False))
                else:
                    nxt.append((c, apps, fin))
            paths = nxt
        return [(c, a) for c, a, f in paths]

    def _paths3(self, stmts, conds):
        out = [(list(conds), [], False)]
        for s in stmts:
            nxt = []
            for c, apps, fin in out:
                if fin:
                    nxt.append((c, apps, fin))
                elif isinstance(s, ast.If):
                    for br, taken in ((s.body, True), (s.orelse, False)):
                        for c2, a2, f2 in self._paths3(
                                br, c + [(s.test, taken)]):
                            nxt.append((c2, apps + a2, f2))
                elif isinstance(s, ast.Continue):
                    nxt.append((c, apps, True))
                elif isinstance(s, ast.Expr) and isinstance(
                        s.value, ast.Call) and isinstance(
                        s.value.func, ast.Attribute) and \
                        s.value.func.attr == 'append' and s.value.args:
                    nxt.append((c, apps + [(U(s.value.func.value),
                                            s.value.args[0])], False))
                else:
                    nxt.append((c, apps, fin))
            out = nxt
        return out

    def _summarise(self, per_path, idx, var, src, src_e):
        """One iteration's appends per path -> segments (or None)."""
        keys = list(per_path)
        # (a) unconditional single append of f(var)
        if len(keys) == 1 and not keys[0]:
            els = per_path[keys[0]]
            if len(els) == 1 and src is not None:
                tf = _tf_of(els[0], var)
                if tf is not None and all(sg.tf == 'id' for sg in src):
                    return tuple(Seg(sg.src, sg.lo, sg.hi, tf, sg.sub)
                                 for sg in src)
            return None
        # all paths share one test
        tests = {U(c[0][0]) for c in keys if c}
        if len(tests) != 1 or any(len(c) != 1 for c in keys):
            return None
        test = [c[0][0] for c in keys if c][0]
        yes = per_path.get(((test, True),), None)
        no = per_path.get(((test, False),), None)
        if yes is None:
            yes = [v for k, v in per_path.items() if k and k[0][1]][0] \
                if any(k and k[0][1] for k in per_path) else []
        if no is None:
            no = [v for k, v in per_path.items() if k and not k[0][1]][0] \
                if any(k and not k[0][1] for k in per_path) else []
        # (b) index split `idx < A` / `idx >= A`
        if idx is not None and isinstance(test, ast.Compare) and len(
                test.ops) == 1 and U(test.left) == idx and src is not None \
                and len(src) == 1 and src[0].lo == '0' and src[0].hi == END \
                and src[0].tf == 'id' and len(yes) == 1 and len(no) == 1:
            A = U(test.comparators[0])
            ty, tn = _tf_of(yes[0], var), _tf_of(no[0], var)
            if ty is None or tn is None:
                return None
            op = type(test.ops[0])
            if op is ast.Lt:
                first, second = ty, tn
            elif op is ast.GtE:
                first, second = tn, ty
            else:
                return None
            return (Seg(src[0].src, '0', A, first),
                    Seg(src[0].src, A, END, second))
        # (c) order-preserving filter: `if cond: acc.append(L[idx])`
        if idx is not None and len(yes) == 1 and not no and isinstance(
                yes[0], ast.Subscript) and U(yes[0].slice) == idx:
            L = self.ev(yes[0].value)
            if L is not None:
                return tuple(Seg(sg.src, sg.lo, sg.hi, sg.tf,
                                 (sg.sub + ' and ' if sg.sub else '')
                                 + U(test)) for sg in L)
        if idx is None and len(yes) == 1 and not no:
            tf = _tf_of(yes[0], var)
            if tf is not None and src is not None and all(
                    sg.tf == 'id' for sg in src):
                return tuple(Seg(sg.src, sg.lo, sg.hi, tf,
                                 (sg.sub + ' and ' if sg.sub else '')
                                 + U(test)) for sg in src)
        return None
