"""Obligation bookkeeping, verdicts, evidence, known findings."""
import json
import os
import re
import time

VERIF = os.path.dirname(os.path.dirname(os.path.abspath(__file__)))
KNOWN = os.path.join(VERIF, 'known_findings.json')


def load_known():
    if not os.path.exists(KNOWN):
        return []
    with open(KNOWN) as f:
        return json.load(f)


def slug(s):
    for a, b in (('<', 'lt'), ('>', 'gt'), ('=', 'eq'), ('!', 'not')):
        s = s.replace(a, b)
    return re.sub(r'[^A-Za-z0-9_.-]+', '_', s)[:120]


class Ctx:
    """Collects what one property check did."""

    def __init__(self, pid, tier, quiet=False):
        self.pid = pid
        self.tier = tier
        self.quiet = quiet
        self.t0 = time.time()
        self.obligations = []   # dicts: rule, where, construct, what, verdict
        self.findings = []      # dicts: rule, construct, key, where, msg
        self.notes = []
        self.errors = []        # analysis errors (exit 2)
        self.rule_counts = {}
        self.functions = set()
        self.selftest = None
        self.undecided = []
        self.assumptions = []
        self.explanation = ''
        self.exhaustive = True

    # -- recording --------------------------------------------------------
    def ok(self, rule, where, construct, what, engine='structural', **slots):
        self._ob(rule, where, construct, what, 'holds', engine, slots)

    def violation(self, rule, where, construct, key, msg,
                  engine='structural', **slots):
        self._ob(rule, where, construct, msg, 'VIOLATED', engine, slots)
        self.findings.append(dict(
            rule=rule, construct=construct, key=key, where=where, msg=msg,
            slots={k: str(v) for k, v in slots.items()}))

    def _ob(self, rule, where, construct, what, verdict, engine, slots):
        self.rule_counts[rule] = self.rule_counts.get(rule, 0) + 1
        self.functions.add(construct)
        o = dict(rule=rule, where=where, construct=construct, what=what,
                 verdict=verdict, engine=engine)
        if slots:
            o['slots'] = {k: str(v) for k, v in slots.items()}
        self.obligations.append(o)

    def note(self, rule, msg):
        self.notes.append('%s: %s' % (rule, msg))

    def error(self, rule, msg):
        self.errors.append('%s: %s' % (rule, msg))

    def floor(self, rule, n):
        """Fail closed when fewer instances than confirmed by hand."""
        got = self.rule_counts.get(rule, 0)
        if got < n:
            self.error(rule, 'only %d instance(s) found, floor is %d — '
                       'anchor moved or idiom no longer recognised' % (got, n))

    # -- finishing --------------------------------------------------------
    def finish(self, repo, write=True):
        allknown = load_known()
        known = [k for k in allknown
                 if self.pid == k.get('property')
                 or self.pid in (k.get('properties') or [])]
        lines = []
        new = []
        known_hit = []
        for f in self.findings:
            match = None
            # a finding attributed from another property's rule is the same
            # defect wherever it is listed
            pool = allknown if f.get('slots', {}).get('pooled') else known
            for k in pool:
                if k.get('status') == 'known' and k.get('rule') == f['rule'] \
                        and k.get('construct') == f['construct'] \
                        and k.get('key') == f['key']:
                    match = k
                    break
            if match is not None:
                known_hit.append((f, match))
            else:
                new.append(f)
        self.new = new
        for f, k in known_hit:
            lines.append('KNOWN-FINDING: property=%s %s %s [%s] %s — %s' % (
                self.pid, k.get('id', ''), f['where'], f['rule'],
                f['construct'], f['msg']))
        rc = 0
        if self.errors:
            rc = 2
            for e in self.errors:
                lines.append('ANALYSIS-ERROR property=%s %s' % (self.pid, e))
        if new:
            rc = 1 if rc == 0 else rc
            os.makedirs(os.path.join(VERIF, 'reports'), exist_ok=True)
            for f in new:
                path = os.path.join(VERIF, 'reports', '%s-%s-%s.json' % (
                    self.pid, slug(f['rule']),
                    slug(f['construct'] + '-' + f['key'])))
                if write:
                    with open(path, 'w') as fh:
                        json.dump(dict(property=self.pid, **f), fh, indent=1)
                lines.append('VIOLATION property=%s replay=%s' % (
                    self.pid, path))
                lines.append('  %s [%s] %s — %s' % (
                    f['where'], f['rule'], f['construct'], f['msg']))
        if new and self.errors:
            rc = 1
        ev = self.evidence(repo, len(new), [k.get('id') for _, k in known_hit])
        if write:
            os.makedirs(os.path.join(VERIF, 'evidence'), exist_ok=True)
            with open(os.path.join(VERIF, 'evidence', self.pid + '.json'),
                      'w') as fh:
                json.dump(ev, fh, indent=1)
        n_ob = len(self.obligations)
        n_ok = sum(1 for o in self.obligations if o['verdict'] == 'holds')
        lines.append('%s tier=%s obligations=%d discharged=%d known=%d new=%d '
                     'errors=%d rules=%s wall=%.2fs' % (
                         self.pid, self.tier, n_ob, n_ok, len(known_hit),
                         len(new), len(self.errors),
                         ','.join('%s:%d' % kv for kv in sorted(
                             self.rule_counts.items())),
                         time.time() - self.t0))
        if not self.quiet:
            print('\n'.join(lines))
        return rc, ev, lines

    def evidence(self, repo, n_new, known_ids):
        n_ob = len(self.obligations)
        n_ok = sum(1 for o in self.obligations if o['verdict'] == 'holds')
        distinct = len({(o['rule'], o['construct'], o['what'])
                        for o in self.obligations})
        # samples: up to 4 per rule, violations first
        samples = []
        per = {}
        for o in sorted(self.obligations,
                        key=lambda o: o['verdict'] == 'holds'):
            if per.get(o['rule'], 0) < 4:
                per[o['rule']] = per.get(o['rule'], 0) + 1
                samples.append(o)
        cov = dict(
            explanation=self.explanation or (
                'static rules over the AST of /repo/chi; see DESIGN.md'),
            obligations=n_ob,
            discharged=n_ok,
            evaluations=n_ob,
            distinct_nontrivial=distinct,
            rule='one obligation per rule instance (rule, construct, slot '
                 'values) found in the current source; distinct = distinct '
                 '(rule, construct, statement) triples',
            samples=samples,
            exhaustive=bool(self.exhaustive),
            rules={k: v for k, v in sorted(self.rule_counts.items())},
            functions_analysed=sorted(self.functions),
            files=[dict(path=p, sha256=repo.sha[p])
                   for p in sorted(repo.consulted) if p in repo.sha],
            undecided_clauses=self.undecided,
            notes=self.notes,
            known_findings=known_ids,
            analysis_errors=self.errors,
            checker_cmd='python3-vt -m chk %s --tier %s' % (
                self.pid, self.tier),
            trusted_base=self.assumptions,
        )
        if self.selftest is not None:
            cov['self_test'] = self.selftest
        return dict(
            property_id=self.pid, tier=self.tier,
            seed=int(os.environ.get('VERIF_SEED', '0') or 0),
            level='other', coverage=cov, assumptions=self.assumptions,
            wall_s=round(time.time() - self.t0, 3), violations=n_new)
